#!/usr/bin/env python3
"""Regenerates MANIFEST.json from checks.json + manifest_meta.json and validates it."""
import json, os, subprocess, sys
ROOT = os.path.dirname(os.path.abspath(__file__))
checks = json.load(open(os.path.join(ROOT, "checks.json")))
meta = json.load(open(os.path.join(ROOT, "manifest_meta.json")))
props = [json.loads(l)["id"] for l in open(os.path.join(ROOT, "properties.jsonl")) if l.strip()]
m = {
 "version": 1,
 "setup_cmd": "./check setup",
 "hooks": meta["hooks"],
 "engines": meta["engines"],
 "checks": [],
 "notes": meta.get("notes", ""),
 "not_applicable": [],
}
for pid in props:
    if pid in checks and pid in meta["checks"]:
        c = meta["checks"][pid]
        m["checks"].append({
            "property_id": pid,
            "quick_cmd": "./check %s quick" % pid,
            "thorough_cmd": "./check %s thorough" % pid,
            "evidence_file": "evidence/%s.json" % pid,
            "replay_cmd_template": "./check replay {path}",
            "engine": c.get("engine", "harness"),
            "level_claimed": {"category": "exploration", "text": c["level_text"], "design_ref": c["design_ref"]},
            "level_note": c["level_note"],
            "technique": c["technique"],
        })
    else:
        m["not_applicable"].append({"property_id": pid, "reason": meta.get("not_applicable", {}).get(pid, "check not built yet in this session (work in progress; see DESIGN.md section 4a)")})
json.dump(m, open(os.path.join(ROOT, "MANIFEST.json"), "w"), indent=1)
open(os.path.join(ROOT, "MANIFEST.json"), "a").write("\n")
try:
    import jsonschema
    jsonschema.validate(m, json.load(open("/root/.vp/MANIFEST.schema.json")))
    print("MANIFEST.json valid: %d checks, %d not_applicable" % (len(m["checks"]), len(m["not_applicable"])))
except ImportError:
    print("jsonschema not available; wrote MANIFEST.json without validation")
