#!/bin/bash
# Quick re-test of an already validated seeded change after a check was strengthened:
#   tools/seedcheck.sh <seed-dir-name e.g. C04-A> <tier quick|thorough> [check-id]
# Applies seeded/<name>/patch.diff to a fresh scratch worktree of /repo HEAD,
# runs the check against it (VERIF_REPO) and removes the worktree again.
set -u
NAME=$1; TIER=${2:-quick}; ID=${3:-${NAME%%-*}}
WT=/tmp/chkwt-$NAME
export GOFLAGS=-mod=mod GOPROXY=off GOSUMDB=off GOTOOLCHAIN=local
git -C /repo worktree remove --force "$WT" 2>/dev/null
git -C /repo worktree add -q --detach "$WT" HEAD || exit 2
(cd "$WT" && git apply /verif/seeded/$NAME/patch.diff) || { echo "patch does not apply"; git -C /repo worktree remove --force "$WT"; exit 2; }
mkdir -p /tmp/chkout
(cd /verif && VERIF_REPO=$WT VERIF_EVIDENCE_DIR=/tmp/chkout VERIF_REPLAYS_DIR=/tmp/chkout/replays ./check $ID $TIER > /tmp/chkout/$NAME.$TIER.log 2>&1); RC=$?
echo "$NAME $ID $TIER: rc=$RC, $(grep -c '^VIOLATION' /tmp/chkout/$NAME.$TIER.log) violation line(s)"
grep -m2 -A1 "^VIOLATION" /tmp/chkout/$NAME.$TIER.log | cut -c1-400
tail -1 /tmp/chkout/$NAME.$TIER.log | cut -c1-300
git -C /repo worktree remove --force "$WT"
rm -rf /tmp/chkout/replays
exit $RC
