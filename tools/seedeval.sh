#!/bin/bash
# Evaluate one seeded change produced by a sub-agent.
#   tools/seedeval.sh <property-id> <variant A|B> [check-ids...]
# 1. verifies the claim in a fresh scratch worktree of /repo HEAD: the patch
#    applies and builds, the demonstration fails with it and passes without it,
#    the existing suite passes with it;
# 2. runs the quick check(s) (default: the property's own) against the patched
#    worktree via VERIF_REPO, and the thorough tier if quick stays silent;
# 3. writes /verif/seeded/<id>-<variant>/ (patch.diff, demo, meta.json) and
#    removes the worktree.
set -u
ID=$1; VAR=$2; shift 2
CHECKS=${*:-$ID}
SRC=/tmp/seed/$ID/_seed/$VAR
WT=/tmp/evalwt-$ID-$VAR
OUT=/verif/seeded/$ID-$VAR
export GOFLAGS=-mod=mod GOPROXY=off GOSUMDB=off GOTOOLCHAIN=local
# the suite writes fixed file names under the temp dir (/tmp/server.conf.pb): keep runs apart
export TMPDIR=/tmp/evaltmp-$ID-$VAR; mkdir -p "$TMPDIR"
mkdir -p "$OUT"
cp "$SRC/patch.diff" "$OUT/patch.diff"
cp "$SRC/demo_test.go" "$OUT/demo_test.go"
cp "$SRC/README.md" "$OUT/agent_README.md" 2>/dev/null
git -C /repo worktree remove --force "$WT" 2>/dev/null
git -C /repo worktree add -q --detach "$WT" HEAD || exit 2
cd "$WT"
DEMODIR=$(head -3 "$SRC/demo_test.go" | grep -o 'place in: *[^ ]*' | head -1 | sed 's/place in: *//')
DEMODIR=${DEMODIR%/}
[ -z "$DEMODIR" ] && DEMODIR=.
DEMO="$DEMODIR/zz_seed_demo_test.go"
cp "$SRC/demo_test.go" "$DEMO"
res() { echo "$1" >> "$OUT/log.txt"; echo "$1"; }
: > "$OUT/log.txt"
# demo on the unchanged tree
go test -mod=mod -vet=off -count=1 -timeout 10m "./$DEMODIR/" > "$OUT/demo_clean.log" 2>&1; DEMO_CLEAN=$?
res "demo on unchanged tree: rc=$DEMO_CLEAN (want 0)"
APPLY=0
git apply "$SRC/patch.diff" 2> "$OUT/apply.log" || APPLY=1
res "patch applies to current HEAD: rc=$APPLY"
BUILD=1; DEMO_MUT=0; SUITE=1
if [ $APPLY = 0 ]; then
  go build ./... > "$OUT/build.log" 2>&1; BUILD=$?
  res "build with patch: rc=$BUILD"
  go test -mod=mod -vet=off -count=1 -timeout 10m "./$DEMODIR/" > "$OUT/demo_mut.log" 2>&1; DEMO_MUT=$?
  res "demo with patch: rc=$DEMO_MUT (want non-zero)"
  rm -f "$DEMO"
  go test -mod=mod -vet=off -count=1 -timeout 25m ./... > "$OUT/suite_mut.log" 2>&1; SUITE=$?
  # timing-sensitive tests of the suite (e.g. replay.TestExpireInterval) flake on
  # a loaded machine: a failing package is re-run alone, up to twice
  for TRY in 1 2; do
    [ $SUITE = 0 ] && break
    FAILED=$(grep -E '^FAIL[[:space:]]+github.com' "$OUT/suite_mut.log" | awk '{print $2}' | sed 's#github.com/enfein/mieru/v3#.#')
    [ -z "$FAILED" ] && break
    go test -mod=mod -vet=off -count=1 -timeout 25m $FAILED > "$OUT/suite_mut.retry$TRY.log" 2>&1; SUITE=$?
    res "re-run of failing package(s) $FAILED alone: rc=$SUITE"
    cp "$OUT/suite_mut.retry$TRY.log" "$OUT/suite_mut.log.last"
    [ $SUITE != 0 ] && cp "$OUT/suite_mut.retry$TRY.log" "$OUT/suite_mut.log"
  done
  res "existing suite with patch: rc=$SUITE (want 0)"
fi
rm -f "$DEMO"
VALID=no
if [ $APPLY = 0 ] && [ $BUILD = 0 ] && [ $DEMO_CLEAN = 0 ] && [ $DEMO_MUT != 0 ] && [ $SUITE = 0 ]; then VALID=yes; fi
res "seed valid: $VALID"
DETECT=""
if [ $VALID = yes ]; then
  for C in $CHECKS; do
    (cd /verif && VERIF_REPO=$WT VERIF_EVIDENCE_DIR=$OUT/evidence VERIF_REPLAYS_DIR=$TMPDIR/replays ./check $C quick > "$OUT/check_$C.quick.log" 2>&1); RC=$?
    res "check $C quick against the patched tree: rc=$RC $(grep -c '^VIOLATION' "$OUT/check_$C.quick.log") violation line(s)"
    if [ $RC = 1 ]; then DETECT="$DETECT $C:quick"; continue; fi
    (cd /verif && VERIF_REPO=$WT VERIF_EVIDENCE_DIR=$OUT/evidence VERIF_REPLAYS_DIR=$TMPDIR/replays ./check $C thorough > "$OUT/check_$C.thorough.log" 2>&1); RC=$?
    res "check $C thorough against the patched tree: rc=$RC $(grep -c '^VIOLATION' "$OUT/check_$C.thorough.log") violation line(s)"
    if [ $RC = 1 ]; then DETECT="$DETECT $C:thorough"; fi
  done
fi
res "detected by:${DETECT:- nothing}"
python3 - "$ID" "$VAR" "$VALID" "$DETECT" "$OUT" <<'EOF'
import json, sys, os
pid, var, valid, detect, out = sys.argv[1:6]
meta = {"property": pid, "variant": var, "valid_seed": valid == "yes",
        "detected_by": detect.split(), "checks_run": open(os.path.join(out, "log.txt")).read().splitlines(),
        "needs_to_manifest": "see agent_README.md",
        "verified": "patch applies and builds on /repo HEAD; demonstration passes without and fails with the patch; existing suite passes with the patch (scratch worktree, removed afterwards)"}
json.dump(meta, open(os.path.join(out, "meta.json"), "w"), indent=1)
EOF
cd /
git -C /repo worktree remove --force "$WT"
rm -rf "$TMPDIR"
