#!/bin/bash
# tools/seedqueue.sh "<ID> <VAR> [check ids...]" ... : evaluate several seeded changes one after the other
for item in "$@"; do
  set -- $item
  /verif/tools/seedeval.sh "$@" > /tmp/se-$1-$2.log 2>&1
  echo "$(date +%H:%M) $1-$2: $(grep -E '^(seed valid|detected by)' /tmp/se-$1-$2.log | tr '\n' ' ')" >> /tmp/seedqueue.log
done
