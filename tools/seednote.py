#!/usr/bin/env python3
"""Record a re-test of a seeded change after a check was strengthened.
   tools/seednote.py <seed-dir-name> <detected-by e.g. C04:quick> <what was strengthened>"""
import json, sys, os
name, det, what = sys.argv[1], sys.argv[2], sys.argv[3]
p = os.path.join("/verif/seeded", name, "meta.json")
m = json.load(open(p))
m.setdefault("first_run_detected_by", m.get("detected_by", []))
m["detected_by"] = det.split()
m["strengthening"] = what
json.dump(m, open(p, "w"), indent=1)
print(name, m["first_run_detected_by"], "->", m["detected_by"])
