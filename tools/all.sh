#!/bin/bash
# tools/all.sh <quick|thorough> [seed] : run every registered check once on the unchanged tree,
# print one line per check (exit code, VIOLATION lines, summary line).
TIER=${1:-quick}; SEED=${2:-1}
export VERIF_SEED=$SEED VERIF_TIER=$TIER
mkdir -p /verif/.logs
for id in $(python3 -c "import json; print(' '.join(sorted(json.load(open('/verif/checks.json')).keys())))"); do
  t0=$(date +%s)
  (cd /verif && ./check $id $TIER > /verif/.logs/$id.$TIER.$SEED.log 2>&1); rc=$?
  echo "$id $TIER seed=$SEED rc=$rc viol=$(grep -c '^VIOLATION' /verif/.logs/$id.$TIER.$SEED.log) $(( $(date +%s) - t0 ))s :: $(tail -1 /verif/.logs/$id.$TIER.$SEED.log | cut -c1-160)"
done
