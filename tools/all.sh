#!/bin/bash
# tools/all.sh <quick|thorough> [seed] : run every registered check once on the unchanged tree,
# print one line per check (exit code, VIOLATION lines, summary line). Works from wherever this
# copy of the framework lives (a `vp run` snapshot included).
TIER=${1:-quick}; SEED=${2:-1}
ROOT=$(cd "$(dirname "$0")/.." && pwd)
export VERIF_SEED=$SEED VERIF_TIER=$TIER
mkdir -p "$ROOT/.logs"
for id in $(python3 -c "import json; print(' '.join(sorted(json.load(open('$ROOT/checks.json')).keys())))"); do
  t0=$(date +%s)
  (cd "$ROOT" && ./check $id $TIER > "$ROOT/.logs/$id.$TIER.$SEED.log" 2>&1); rc=$?
  echo "$id $TIER seed=$SEED rc=$rc viol=$(grep -c '^VIOLATION' "$ROOT/.logs/$id.$TIER.$SEED.log") $(( $(date +%s) - t0 ))s :: $(tail -1 "$ROOT/.logs/$id.$TIER.$SEED.log" | cut -c1-160)"
done
