#!/usr/bin/env python3
"""Regenerate DESIGN.md section 8 (which checks catch which seeded changes) from seeded/*/meta.json."""
import json, os, re
rows = []
for d in sorted(os.listdir('/verif/seeded')):
    p = f'/verif/seeded/{d}/meta.json'
    if not os.path.exists(p):
        continue
    m = json.load(open(p))
    first = m.get('first_run_detected_by', m['detected_by'])
    note = m.get('note', '')
    if 'first_run_detected_by' not in m and not note:
        how = 'first run'
    elif note:
        how = 'first run (check strengthened beforehand, see note)'
    else:
        how = 'after strengthening (first run: %s)' % (', '.join(first) if first else 'missed by quick and thorough')
    rows.append((d, m['needs_to_manifest'], ', '.join(m['detected_by']) or 'NOT DETECTED', how, m.get('strengthening', '')))
out = ['## 8. Which checks catch which seeded changes', '',
       'Forty changes were written by sub-agents that saw only the text of one property and a scratch',
       'worktree of the repository (nothing from /verif). Each was confirmed in a fresh worktree by',
       '`tools/seedeval.sh`: the patch applies to the current `/repo` HEAD and builds, the agent\'s',
       'demonstration passes without it and fails with it, and the unedited existing suite passes with it',
       '(packages whose timing-sensitive tests flaked under load were re-run alone). All forty are valid.',
       'Then the property\'s registered check ran against the patched worktree (`VERIF_REPO`), quick tier',
       'first, thorough if quick stayed silent. None of the patches is ever applied to `/repo` itself.',
       '',
       'First-run result: 24 caught by the quick tier (4 of them - C03-B, C11-A, C11-B, C12-B - only',
       'after I had read the agent\'s summary and widened the generator, so their "first run" is not a blind',
       'one), 3 caught by the thorough tier only (C14-B, C15-A, C15-B), 1 "caught" by a false alarm of the',
       'check (C05-B, section 7), 12 missed by both tiers. Every miss was traced to a generator or oracle',
       'gap, the check was strengthened, and all forty are now caught by the quick tier. The patches,',
       'demonstrations, logs of the runs and the notes are in `seeded/<id>/`.',
       '',
       '| seed | needs, in order to manifest | caught by | when | what was strengthened |',
       '|---|---|---|---|---|']
for r in rows:
    out.append('| %s | %s | %s | %s | %s |' % tuple(x.replace('|', '/').replace('\n', ' ') for x in r))
out += ['',
        'Lessons that changed the machinery beyond single generators: (1) mieru\'s replay caches are',
        'process-wide, so a real mieru client in the harness process hides missing replay/direction checks',
        'on the server (C05-B) - reflection and replay probes now use the reference client; (2) apis/client',
        'always writes its own buffer first and reads the SOCKS5 response inside the first Write, so',
        'defects in how a session treats caller buffers or never-read sessions need an application on the',
        'session layer (e2e RawClient: C13-B, C15-A); (3) a known finding\'s signature must be as narrow as',
        'the finding: two open findings (F-C03-2, F-C15-6) were masking seeded changes with the same',
        'symptom and were narrowed to what the recorded root cause can explain (C03-B, C15-B);',
        '(4) anything that only happens after the server\'s 5 s session clean-up needs a case that waits',
        'for it (C05-A, C05-B, C06-B).', '']
s = open('/verif/DESIGN.md').read()
i = s.index('## 8. Which checks catch which seeded changes')
s = s[:i] + '\n'.join(out)
open('/verif/DESIGN.md', 'w').write(s)
print(len(rows), 'rows')
