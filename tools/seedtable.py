#!/usr/bin/env python3
"""Regenerate DESIGN.md section 8 (which checks catch which seeded changes) from seeded/*/meta.json."""
import json, os, re
rows = []
for d in sorted(os.listdir('/verif/seeded')):
    p = f'/verif/seeded/{d}/meta.json'
    if not os.path.exists(p):
        continue
    m = json.load(open(p))
    first = m.get('first_run_detected_by', m['detected_by'])
    note = m.get('note', '')
    if 'first_run_detected_by' not in m and not note:
        how = 'first run'
    elif note:
        how = 'first run (check strengthened beforehand, see note)'
    else:
        how = 'after strengthening (first run: %s)' % (', '.join(first) if first else 'missed by quick and thorough')
    rows.append((d, m['needs_to_manifest'], ', '.join(m['detected_by']) or 'NOT DETECTED', how, m.get('strengthening', '')))
n = len(rows)
first_quick = first_thorough = first_missed = blind_no = 0
other_check = []
for d in sorted(os.listdir('/verif/seeded')):
    p = f'/verif/seeded/{d}/meta.json'
    if not os.path.exists(p):
        continue
    m = json.load(open(p))
    first = m.get('first_run_detected_by', m['detected_by'])
    if m.get('note'):
        blind_no += 1
    if d == 'C05-B':
        first_missed += 1  # its first-run 'catch' was a false alarm of the check
    elif any(x.endswith(':quick') for x in first):
        first_quick += 1
    elif first:
        first_thorough += 1
    else:
        first_missed += 1
    own = d.split('-')[0]
    if m['detected_by'] and all(not x.startswith(own + ':') for x in m['detected_by']):
        other_check.append('%s (by %s)' % (d, ', '.join(m['detected_by'])))
now_quick = sum(1 for r in rows if ':quick' in r[2])
now_thorough = sum(1 for r in rows if r[2] != 'NOT DETECTED' and ':quick' not in r[2])
now_missed = sum(1 for r in rows if r[2] == 'NOT DETECTED')
out = ['## 8. Which checks catch which seeded changes', '',
       '%d changes were written, in rounds (letters A/B, C/D, E/F ...), by sub-agents that saw only the text of' % n,
       'one property, a one-line list of the changes already made for it (so that theirs would differ in',
       'kind) and a scratch worktree of the repository - nothing from /verif. Each was confirmed in a fresh',
       'worktree by `tools/seedeval.sh`: the patch applies to the current `/repo` HEAD and builds, the',
       'agent\'s demonstration passes without it and fails with it, and the unedited existing suite passes',
       'with it (packages whose timing-sensitive tests flaked under load were re-run alone). Changes that',
       'failed this validation were discarded and are not listed. Then the property\'s registered check ran',
       'against the patched worktree (`VERIF_REPO`), quick tier first, thorough if quick stayed silent. None',
       'of the patches is ever applied to `/repo` itself.',
       '',
       'First-run result over all rounds: %d caught by the quick tier (%d of them only after I had read the' % (first_quick, blind_no),
       'agent\'s summary and widened the generator, so their "first run" is not a blind one), %d caught by the' % first_thorough,
       'thorough tier only, %d missed by both tiers (one first-round "catch", C05-B, was a false alarm of' % first_missed,
       'the check, section 7, and counts as a miss). Every miss was traced to a generator or oracle gap - or',
       'to a harness that misrepresented the platform - and the check was strengthened; the changes still',
       'listed as not caught carry the reason in their row (outside the properties\' domain, longer than any',
       'case can last, or a CPU this host does not have). Now: %d caught by' % now_quick,
       'the quick tier, %d by the thorough tier only, %d not caught.' % (now_thorough, now_missed),
       'Caught by another property\'s check than the one the agent aimed at: %s.' % ('; '.join(other_check) or 'none'),
       'The patches, demonstrations, logs of the runs and the notes are in `seeded/<id>/`.',
       '',
       '| seed | needs, in order to manifest | caught by | when | what was strengthened |',
       '|---|---|---|---|---|']
for r in rows:
    out.append('| %s | %s | %s | %s | %s |' % tuple(x.replace('|', '/').replace('\n', ' ') for x in r))
out += ['',
        'Lessons that changed the machinery beyond single generators: (1) mieru\'s replay caches are',
        'process-wide, so a real mieru client in the harness process hides missing replay/direction checks',
        'on the server (C05-B) - reflection and replay probes now use the reference client; (2) apis/client',
        'always writes its own buffer first and reads the SOCKS5 response inside the first Write, so',
        'defects in how a session treats caller buffers or never-read sessions need an application on the',
        'session layer (e2e RawClient: C13-B, C15-A); (3) a known finding\'s signature must be as narrow as',
        'the finding: two open findings (F-C03-2, F-C15-6) were masking seeded changes with the same',
        'symptom and were narrowed to what the recorded root cause can explain (C03-B, C15-B);',
        '(4) anything that only happens after the server\'s 5 s session clean-up needs a case that waits',
        'for it (C05-A, C05-B, C06-B); (5) the simulated platform must fail where the real one fails: the',
        'simulated UDP socket ignored write deadlines, which hid a shutdown that silences its own goodbyes',
        '(C15-C); (6) the harness\'s server application must be allowed to misbehave like a real one - not',
        'accepting (C15-D), answering at once (F-C02-1), never reading (C15-A); (7) schedules the harness',
        'does not own are sampled on purpose where the property names them (concurrent first sessions of a',
        'user, C19-D), with a barrier and many rounds rather than by hoping for load.', '']
s = open('/verif/DESIGN.md').read()
i = s.index('## 8. Which checks catch which seeded changes')
s = s[:i] + '\n'.join(out)
open('/verif/DESIGN.md', 'w').write(s)
print(len(rows), 'rows')
