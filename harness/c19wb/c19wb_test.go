//go:build verif

// C19 (white-box part): an over-quota user dials while the server's input
// goroutine is held right after the point at which an open request's payload
// becomes readable (hook VerifPointFunc). A server that makes the request
// readable before it has refused the session lets an application that answers
// at once relay its first bytes to the user. The harness owns this schedule.
package c19wb

import (
	"context"
	"fmt"
	"os"
	"path/filepath"
	"sync"
	"sync/atomic"
	"testing"
	"time"

	"github.com/enfein/mieru/v3/pkg/metrics"
	mpb "github.com/enfein/mieru/v3/pkg/metrics/metricspb"
	"github.com/enfein/mieru/v3/pkg/protocol"
	"google.golang.org/protobuf/proto"
	"pgregory.net/rapid"

	"verif/harness/e2e"
	"verif/harness/pbt"
	"verif/harness/refproto"
	"verif/harness/simnet"
)

type Case struct {
	UDP       bool `json:"udp,omitempty"`
	NoWait    bool `json:"noWait,omitempty"`
	RawClient bool `json:"rawClient,omitempty"`
	HoldMs    int  `json:"holdMs"`
	QuotaMB   int  `json:"quotaMB"`
	OverKB    int  `json:"overKB"` // counted traffic beyond the allowance (>= 1024)
	Days      int  `json:"days"`
}

func gen(t *rapid.T) Case {
	c := Case{
		UDP:     rapid.Bool().Draw(t, "udp"),
		NoWait:  rapid.Bool().Draw(t, "noWait"),
		HoldMs:  rapid.SampledFrom([]int{1, 5, 20, 50}).Draw(t, "holdMs"),
		QuotaMB: rapid.SampledFrom([]int{1, 2, 5}).Draw(t, "mb"),
		OverKB:  rapid.SampledFrom([]int{1024, 1025, 5000}).Draw(t, "over"),
		Days:    rapid.SampledFrom([]int{1, 7, 30}).Draw(t, "days"),
	}
	if rapid.IntRange(0, 2).Draw(t, "rawClient") == 0 {
		c.RawClient, c.NoWait = true, true
	}
	return c
}

var userSeq atomic.Uint64
var dumpMu sync.Mutex

func counter(user, name string) *metrics.Counter {
	return metrics.RegisterMetric(fmt.Sprintf(metrics.UserMetricGroupFormat, user), name, metrics.COUNTER_TIME_SERIES).(*metrics.Counter)
}

func preloadUpload(user string, kib int64, age time.Duration) error {
	up := counter(user, metrics.UserMetricUploadBytes)
	counter(user, metrics.UserMetricDownloadBytes)
	pbm := metrics.ToMetricPB(up)
	v := kib * 1024
	pbm.Value = &v
	pbm.History = []*mpb.History{{TimeUnixMilli: proto.Int64(time.Now().Add(-age).UnixMilli()), Delta: proto.Int64(v), RollUp: mpb.RollUpLabel_NO_ROLL_UP.Enum()}}
	m, err := metrics.FromMetricPB(pbm)
	if err != nil {
		return err
	}
	all := &mpb.AllMetrics{Groups: []*mpb.MetricGroup{{Name: proto.String(fmt.Sprintf(metrics.UserMetricGroupFormat, user)), Metrics: []*mpb.Metric{metrics.ToMetricPB(m)}}}}
	dumpMu.Lock()
	defer dumpMu.Unlock()
	dir, err := os.MkdirTemp("", "c19wb-")
	if err != nil {
		return err
	}
	defer os.RemoveAll(dir)
	path := filepath.Join(dir, "metrics.pb")
	raw, _ := proto.Marshal(all)
	if err := os.WriteFile(path, raw, 0o600); err != nil {
		return err
	}
	metrics.SetMetricsDumpFilePath(path)
	defer metrics.SetMetricsDumpFilePath("")
	return metrics.LoadMetricsFromDump()
}

func prop(c Case) (o pbt.Outcome) {
	hold := time.Duration(c.HoldMs) * time.Millisecond
	f := func(name string, isClient bool) {
		if name == "open-request-payload-readable" && !isClient {
			time.Sleep(hold)
		}
	}
	protocol.VerifPointFunc.Store(&f)
	defer protocol.VerifPointFunc.Store(nil)

	name := fmt.Sprintf("w%d-%d", os.Getpid(), userSeq.Add(1))
	users := []e2e.UserSpec{{Name: name, Password: "pw"}}
	if err := preloadUpload(name, int64(c.QuotaMB)*1024+int64(c.OverKB), time.Hour); err != nil {
		o.Failf("harness", "preload: %v", err)
		return
	}
	cfg := e2e.Config{UDP: c.UDP, NoWait: c.NoWait, RawClient: c.RawClient, Users: users, Quotas: map[int][][2]int32{0: {{int32(c.Days), int32(c.QuotaMB)}}}}
	sn := simnet.NewStreamNet(simnet.StreamOpts{Record: true})
	pn := simnet.NewPacketNet()
	tStart := time.Now()
	env, err := e2e.Start(cfg, sn, pn)
	if err != nil {
		o.Failf("start", "start: %v", err)
		return
	}
	defer env.StopBounded(3 * time.Second)
	upC, downC := counter(name, metrics.UserMetricUploadBytes), counter(name, metrics.UserMetricDownloadBytes)
	up0, down0 := upC.Load(), downC.Load()
	o.Label("udp=%v", c.UDP)
	o.Label("hold=%dms", c.HoldMs)
	o.NonTrivial = true

	ctx, cancel := context.WithTimeout(context.Background(), 15*time.Second)
	conn, derr := env.Dial(ctx, 0)
	cancel()
	if derr == nil {
		if c.NoWait {
			conn.Write([]byte("hello"))
		}
		buf := make([]byte, 1)
		conn.SetReadDeadline(time.Now().Add(2 * time.Second))
		_, rerr := conn.Read(buf)
		conn.Close()
		if rerr == nil {
			o.Failf("quota-not-enforced", "an over-quota user's session was served")
			return
		}
	}
	saw := false
	for end := time.Now().Add(3 * time.Second); !saw && time.Now().Before(end); time.Sleep(10 * time.Millisecond) {
		if c.UDP {
			dg, _ := pn.Snapshot()
			for _, d := range e2e.DecodeDatagrams(dg, 7000, users, tStart, time.Now()) {
				if d.Seg != nil && !d.FromClient && d.Seg.Meta.Proto == refproto.CloseSessionRequest && d.Seg.Meta.Status == 1 {
					saw = true
				}
			}
		} else {
			for _, l := range e2e.DecodeLinks(sn, users, tStart, time.Now()) {
				for _, seg := range l.S2C {
					if seg.Meta.Proto == refproto.CloseSessionRequest && seg.Meta.Status == 1 {
						saw = true
					}
				}
			}
		}
	}
	time.Sleep(hold + 20*time.Millisecond)
	if d := downC.Load() - down0; d != 0 {
		o.Failf("quota-relayed/reply-raced-the-refusal", "with the server's input goroutine held %v after the request became readable, %d byte(s) written by the application were relayed to the over-quota user (upload counter +%d)", hold, d, upC.Load()-up0)
		return
	}
	if !saw {
		o.Failf("quota-status", "the refusal carried no quota status on the wire (dial error: %v)", derr)
	}
	return
}

func TestC19QuotaRace(t *testing.T) {
	pbt.Run(t, "C19", "quotarace", gen, prop)
}
