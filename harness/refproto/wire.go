package refproto

import (
	"errors"
	"fmt"
)

// Extent gives the byte extents of the fields of one segment inside the
// stream / datagram it was decoded from: [Start, NonceEnd) nonce (may be
// empty), [NonceEnd, MetaEnd) encrypted metadata + tag, [MetaEnd, Pad1End)
// padding 1, [Pad1End, BodyEnd) payload body, [BodyEnd, TagEnd) payload tag,
// [TagEnd, End) padding 2.
type Extent struct {
	Start, NonceEnd, MetaEnd, Pad1End, BodyEnd, TagEnd, End int
}

// Segment is one decoded segment.
type Segment struct {
	Meta      Meta   `json:"meta"`
	MetaRaw   []byte `json:"-"`
	Payload   []byte `json:"-"` // decrypted payload
	Nonce     []byte `json:"-"` // nonce on the wire, if any
	MetaNonce []byte `json:"-"` // nonce used for the metadata AEAD operation
	Ext       Extent `json:"ext"`
	KeySlot   int    `json:"keySlot"` // index into the key list that opened it
	LEPadBit  int    `json:"lePad,omitempty"`
}

// ErrNeedMore is returned by the stream decoder when the buffer ends inside a segment.
var ErrNeedMore = errors.New("need more bytes")

// StreamDecoder decodes one direction of a TCP connection incrementally.
type StreamDecoder struct {
	Keys    [][]byte // candidate keys (three time slots, possibly of several users)
	key     []byte
	KeySlot int
	nonce   []byte // nonce of the last AEAD operation
	started bool
	Off     int // absolute stream offset of the next segment
}

// NewStreamDecoder creates a decoder trying the given keys on the first segment.
func NewStreamDecoder(keys [][]byte) *StreamDecoder {
	return &StreamDecoder{Keys: keys}
}

// Next tries to decode one segment from the head of buf. It returns the
// segment and the number of bytes consumed, ErrNeedMore if buf is too short,
// or another error if the bytes are not a valid segment.
func (d *StreamDecoder) Next(buf []byte) (*Segment, int, error) {
	seg := &Segment{}
	pos := 0
	var metaNonce []byte
	key := d.key
	if !d.started {
		if len(buf) < HeaderLen {
			return nil, 0, ErrNeedMore
		}
		nonce := append([]byte(nil), buf[:NonceLen]...)
		var plain []byte
		slot := -1
		for i, k := range d.Keys {
			p, err := aead(k).Open(nil, nonce, buf[NonceLen:HeaderLen], nil)
			if err == nil {
				plain, slot = p, i
				break
			}
		}
		if slot < 0 {
			return nil, 0, errors.New("first segment: no key opens the metadata")
		}
		key = d.Keys[slot]
		seg.Nonce = nonce
		seg.MetaRaw = plain
		metaNonce = nonce
		seg.KeySlot = slot
		pos = HeaderLen
		seg.Ext.NonceEnd = NonceLen
	} else {
		if len(buf) < MetaLen+TagLen {
			return nil, 0, ErrNeedMore
		}
		metaNonce = append([]byte(nil), d.nonce...)
		IncNonce(metaNonce)
		p, err := aead(key).Open(nil, metaNonce, buf[:MetaLen+TagLen], nil)
		if err != nil {
			return nil, 0, fmt.Errorf("metadata does not authenticate under nonce+1: %w", err)
		}
		seg.MetaRaw = p
		seg.KeySlot = d.KeySlot
		pos = MetaLen + TagLen
	}
	seg.MetaNonce = metaNonce
	seg.Ext.MetaEnd = pos
	m, ok := ParseMeta(seg.MetaRaw)
	if !ok {
		return nil, 0, fmt.Errorf("undocumented protocol type %d", seg.MetaRaw[0])
	}
	seg.Meta = m
	lastNonce := metaNonce
	if IsSession(m.Proto) {
		seg.Ext.Pad1End = pos
		if m.PayloadLen > 0 {
			need := int(m.PayloadLen) + TagLen
			if len(buf) < pos+need {
				return nil, 0, ErrNeedMore
			}
			pn := append([]byte(nil), metaNonce...)
			IncNonce(pn)
			p, err := aead(key).Open(nil, pn, buf[pos:pos+need], nil)
			if err != nil {
				return nil, 0, fmt.Errorf("session payload does not authenticate: %w", err)
			}
			seg.Payload = p
			lastNonce = pn
			seg.Ext.BodyEnd = pos + int(m.PayloadLen)
			pos += need
			seg.Ext.TagEnd = pos
		} else {
			seg.Ext.BodyEnd, seg.Ext.TagEnd = pos, pos
		}
		if len(buf) < pos+int(m.SuffixLen) {
			return nil, 0, ErrNeedMore
		}
		pos += int(m.SuffixLen)
	} else {
		if len(buf) < pos+int(m.PrefixLen) {
			return nil, 0, ErrNeedMore
		}
		pos += int(m.PrefixLen)
		seg.Ext.Pad1End = pos
		if m.PayloadLen > 0 {
			need := int(m.PayloadLen) + TagLen
			if len(buf) < pos+need {
				return nil, 0, ErrNeedMore
			}
			ct := buf[pos : pos+need]
			if IsLE(m.Proto) {
				body, err := LEDecode(ct[:m.PayloadLen], int(m.LEExtracted), m.Byte1, m.LEMask, m.LERot)
				if err != nil {
					return nil, 0, fmt.Errorf("low entropy body: %w", err)
				}
				seg.LEPadBit = int(lePadBit(ct[:m.PayloadLen], m))
				ct = append(body, ct[m.PayloadLen:]...)
			}
			pn := append([]byte(nil), metaNonce...)
			IncNonce(pn)
			p, err := aead(key).Open(nil, pn, ct, nil)
			if err != nil {
				return nil, 0, fmt.Errorf("data payload does not authenticate: %w", err)
			}
			seg.Payload = p
			lastNonce = pn
			seg.Ext.BodyEnd = pos + int(m.PayloadLen)
			pos += need
			seg.Ext.TagEnd = pos
		} else {
			seg.Ext.BodyEnd, seg.Ext.TagEnd = pos, pos
		}
		if len(buf) < pos+int(m.SuffixLen) {
			return nil, 0, ErrNeedMore
		}
		pos += int(m.SuffixLen)
	}
	seg.Ext.End = pos
	// commit
	d.started = true
	d.key = key
	d.KeySlot = seg.KeySlot
	d.nonce = lastNonce
	// make extents absolute
	seg.Ext.Start += d.Off
	seg.Ext.NonceEnd += d.Off
	if seg.Ext.NonceEnd < seg.Ext.Start {
		seg.Ext.NonceEnd = seg.Ext.Start
	}
	seg.Ext.MetaEnd += d.Off
	seg.Ext.Pad1End += d.Off
	seg.Ext.BodyEnd += d.Off
	seg.Ext.TagEnd += d.Off
	seg.Ext.End += d.Off
	d.Off += pos
	return seg, pos, nil
}

// lePadBit reports the padding polarity of an encoded body (first chunk).
func lePadBit(enc []byte, m Meta) uint8 {
	if len(enc) < 8 {
		return 0
	}
	mask := LEMaskForChunk(m.LEMask, m.LERot, 0)
	for pos := 0; pos < 64; pos++ {
		if mask>>uint(pos)&1 == 0 {
			byteIdx := 7 - pos/8
			return enc[byteIdx] >> uint(pos%8) & 1
		}
	}
	return 0
}

// DecodeStream decodes a whole recorded direction. It returns the segments
// decoded, the number of bytes that could not be decoded (residue) and the
// error that stopped decoding (nil if the stream parsed to the last byte).
func DecodeStream(data []byte, keys [][]byte) ([]*Segment, int, error) {
	d := NewStreamDecoder(keys)
	var segs []*Segment
	pos := 0
	for pos < len(data) {
		seg, n, err := d.Next(data[pos:])
		if err != nil {
			return segs, len(data) - pos, err
		}
		segs = append(segs, seg)
		pos += n
	}
	return segs, 0, nil
}

// DecodeDatagram decodes one UDP datagram under one of the keys.
func DecodeDatagram(b []byte, keys [][]byte) (*Segment, error) {
	if len(b) < HeaderLen {
		return nil, errors.New("datagram shorter than nonce + metadata + tag")
	}
	nonce := append([]byte(nil), b[:NonceLen]...)
	seg := &Segment{Nonce: nonce, MetaNonce: nonce}
	slot := -1
	for i, k := range keys {
		p, err := aead(k).Open(nil, nonce, b[NonceLen:HeaderLen], nil)
		if err == nil {
			seg.MetaRaw, slot = p, i
			break
		}
	}
	if slot < 0 {
		return nil, errors.New("no key opens the metadata")
	}
	seg.KeySlot = slot
	key := keys[slot]
	m, ok := ParseMeta(seg.MetaRaw)
	if !ok {
		return nil, fmt.Errorf("undocumented protocol type %d", seg.MetaRaw[0])
	}
	seg.Meta = m
	pos := HeaderLen
	seg.Ext = Extent{Start: 0, NonceEnd: NonceLen, MetaEnd: HeaderLen}
	if !IsSession(m.Proto) {
		pos += int(m.PrefixLen)
	}
	seg.Ext.Pad1End = pos
	if pos > len(b) {
		return nil, errors.New("padding 1 exceeds the datagram")
	}
	if m.PayloadLen > 0 {
		need := int(m.PayloadLen) + TagLen
		if len(b) < pos+need {
			return nil, errors.New("payload exceeds the datagram")
		}
		ct := b[pos : pos+need]
		if IsLE(m.Proto) {
			body, err := LEDecode(ct[:m.PayloadLen], int(m.LEExtracted), m.Byte1, m.LEMask, m.LERot)
			if err != nil {
				return nil, fmt.Errorf("low entropy body: %w", err)
			}
			seg.LEPadBit = int(lePadBit(ct[:m.PayloadLen], m))
			ct = append(body, ct[m.PayloadLen:]...)
		}
		p, err := aead(key).Open(nil, nonce, ct, nil)
		if err != nil {
			return nil, fmt.Errorf("payload does not authenticate under the datagram's nonce: %w", err)
		}
		seg.Payload = p
		seg.Ext.BodyEnd = pos + int(m.PayloadLen)
		pos += need
		seg.Ext.TagEnd = pos
	} else {
		seg.Ext.BodyEnd, seg.Ext.TagEnd = pos, pos
	}
	pos += int(m.SuffixLen)
	seg.Ext.End = pos
	if pos != len(b) {
		return nil, fmt.Errorf("length fields account for %d bytes, datagram has %d", pos, len(b))
	}
	return seg, nil
}

// ---------------------------------------------------------------------------
// Encoders

// SegSpec describes a segment to encode.
type SegSpec struct {
	Meta    Meta
	Payload []byte
	Pad1    []byte // data/ack only
	Pad2    []byte
	// Low entropy: if Meta.Proto is 10/11 the payload body is encoded with
	// Meta.Byte1/LEMask/LERot and this padding bit.
	LEPadBit uint8
	// FixLengths fills PayloadLen/PrefixLen/SuffixLen/LEExtracted from the
	// actual payload and paddings.
	FixLengths bool
}

func (s *SegSpec) fix() {
	if !s.FixLengths {
		return
	}
	s.Meta.SuffixLen = uint8(len(s.Pad2))
	if IsSession(s.Meta.Proto) {
		s.Meta.PayloadLen = uint16(len(s.Payload))
		return
	}
	s.Meta.PrefixLen = uint8(len(s.Pad1))
	if IsLE(s.Meta.Proto) && len(s.Payload) > 0 {
		s.Meta.LEExtracted = uint16(len(s.Payload))
		s.Meta.PayloadLen = uint16(LEEncodedLen(len(s.Payload), s.Meta.Byte1))
	} else {
		s.Meta.PayloadLen = uint16(len(s.Payload))
	}
}

// sealPayload returns body||tag (body low-entropy encoded when requested).
func sealPayload(key, nonce []byte, s *SegSpec) ([]byte, error) {
	if len(s.Payload) == 0 {
		return nil, nil
	}
	ct := aead(key).Seal(nil, nonce, s.Payload, nil)
	if IsLE(s.Meta.Proto) {
		n := len(s.Payload)
		enc, err := LEEncode(ct[:n], s.Meta.Byte1, s.Meta.LEMask, s.Meta.LERot, s.LEPadBit)
		if err != nil {
			return nil, err
		}
		return append(enc, ct[n:]...), nil
	}
	return ct, nil
}

// StreamEncoder encodes one direction of a TCP connection.
type StreamEncoder struct {
	Key   []byte
	nonce []byte
	first bool
}

// NewStreamEncoder starts a direction with the given initial nonce (24 bytes,
// hint already set by the caller if desired).
func NewStreamEncoder(key, nonce []byte) *StreamEncoder {
	return &StreamEncoder{Key: key, nonce: append([]byte(nil), nonce...), first: true}
}

// Encode returns the wire bytes of the next segment.
func (e *StreamEncoder) Encode(s SegSpec) ([]byte, error) {
	s.fix()
	var out []byte
	if e.first {
		out = append(out, e.nonce...)
		e.first = false
	} else {
		IncNonce(e.nonce)
	}
	out = aead(e.Key).Seal(out, e.nonce, s.Meta.Marshal(), nil)
	if !IsSession(s.Meta.Proto) {
		out = append(out, s.Pad1...)
	}
	if len(s.Payload) > 0 {
		IncNonce(e.nonce)
		p, err := sealPayload(e.Key, e.nonce, &s)
		if err != nil {
			return nil, err
		}
		out = append(out, p...)
	}
	out = append(out, s.Pad2...)
	return out, nil
}

// EncodeDatagram returns one UDP datagram.
func EncodeDatagram(key, nonce []byte, s SegSpec) ([]byte, error) {
	s.fix()
	out := append([]byte(nil), nonce...)
	out = aead(key).Seal(out, nonce, s.Meta.Marshal(), nil)
	if !IsSession(s.Meta.Proto) {
		out = append(out, s.Pad1...)
	}
	if len(s.Payload) > 0 {
		p, err := sealPayload(key, nonce, &s)
		if err != nil {
			return nil, err
		}
		out = append(out, p...)
	}
	out = append(out, s.Pad2...)
	return out, nil
}
