// Package refproto is an independent implementation of docs/protocol.md,
// written from the document only. It shares no code with mieru: key
// derivation (own PBKDF2 over crypto/hmac), nonce and user hint, the three
// metadata layouts, segment layout for TCP and UDP, nonce progression, the
// low-entropy codec (bit by bit), and UDP-associate framing.
//
// Trusted base: XChaCha20-Poly1305 (golang.org/x/crypto), SHA-256, HMAC.
package refproto

import (
	"crypto/cipher"
	"crypto/hmac"
	"crypto/sha256"
	"encoding/binary"
	"errors"
	"fmt"
	"math/bits"

	"golang.org/x/crypto/chacha20poly1305"
)

const (
	NonceLen = 24
	MetaLen  = 32
	TagLen   = 16
	// HeaderLen is nonce + encrypted metadata + tag.
	HeaderLen = NonceLen + MetaLen + TagLen

	OpenSessionRequest   = 2
	OpenSessionResponse  = 3
	CloseSessionRequest  = 4
	CloseSessionResponse = 5
	DataClientToServer   = 6
	DataServerToClient   = 7
	AckClientToServer    = 8
	AckServerToClient    = 9
	DataClientToServerLE = 10
	DataServerToClientLE = 11
)

// ---------------------------------------------------------------------------
// Key derivation

// HashedPassword = SHA-256(password || 0x00 || username).
func HashedPassword(password, user string) []byte {
	h := sha256.New()
	h.Write([]byte(password))
	h.Write([]byte{0})
	h.Write([]byte(user))
	return h.Sum(nil)
}

// RoundSlot rounds unix seconds to the nearest multiple of 120 s.
func RoundSlot(unix int64) int64 {
	q := unix / 120
	r := unix - q*120
	if r < 0 {
		q--
		r += 120
	}
	if r >= 60 {
		q++
	}
	return q * 120
}

// TimeSalt = SHA-256(uint64_be(slot)).
func TimeSalt(slot int64) []byte {
	var b [8]byte
	binary.BigEndian.PutUint64(b[:], uint64(slot))
	s := sha256.Sum256(b[:])
	return s[:]
}

// pbkdf2 is PBKDF2-HMAC-SHA256 (RFC 8018) written out.
func pbkdf2(password, salt []byte, iter, keyLen int) []byte {
	var out []byte
	for block := uint32(1); len(out) < keyLen; block++ {
		mac := hmac.New(sha256.New, password)
		mac.Write(salt)
		var ib [4]byte
		binary.BigEndian.PutUint32(ib[:], block)
		mac.Write(ib[:])
		u := mac.Sum(nil)
		t := append([]byte(nil), u...)
		for i := 1; i < iter; i++ {
			mac = hmac.New(sha256.New, password)
			mac.Write(u)
			u = mac.Sum(nil)
			for j := range t {
				t[j] ^= u[j]
			}
		}
		out = append(out, t...)
	}
	return out[:keyLen]
}

// KeyForSlot derives the 32-byte key for a time slot (a multiple of 120 s).
func KeyForSlot(hashedPassword []byte, slot int64) []byte {
	return pbkdf2(hashedPassword, TimeSalt(slot), 64, 32)
}

// KeyAt derives the key a party whose clock shows unix would use.
func KeyAt(hashedPassword []byte, unix int64) []byte {
	return KeyForSlot(hashedPassword, RoundSlot(unix))
}

// KeysAround returns the keys of the previous, current and next slot.
func KeysAround(hashedPassword []byte, unix int64) [][]byte {
	s := RoundSlot(unix)
	return [][]byte{KeyForSlot(hashedPassword, s-120), KeyForSlot(hashedPassword, s), KeyForSlot(hashedPassword, s+120)}
}

// UserHint = first 4 bytes of SHA-256(username || nonce[:16]).
func UserHint(user string, nonce []byte) []byte {
	h := sha256.New()
	h.Write([]byte(user))
	h.Write(nonce[:16])
	return h.Sum(nil)[:4]
}

// SetUserHint writes the hint into the last 4 bytes of the nonce.
func SetUserHint(user string, nonce []byte) {
	copy(nonce[NonceLen-4:], UserHint(user, nonce))
}

// HintMatches reports whether the nonce carries the hint of user.
func HintMatches(user string, nonce []byte) bool {
	h := UserHint(user, nonce)
	for i := 0; i < 4; i++ {
		if nonce[NonceLen-4+i] != h[i] {
			return false
		}
	}
	return true
}

func aead(key []byte) cipher.AEAD {
	a, err := chacha20poly1305.NewX(key)
	if err != nil {
		panic(err)
	}
	return a
}

// IncNonce adds one to a big-endian 24-byte counter.
func IncNonce(n []byte) {
	for i := len(n) - 1; i >= 0; i-- {
		n[i]++
		if n[i] != 0 {
			return
		}
	}
}

// ---------------------------------------------------------------------------
// Metadata

// Meta is the decoded 32-byte metadata (all three layouts).
type Meta struct {
	Proto     uint8  `json:"proto"`
	Byte1     uint8  `json:"byte1,omitempty"` // low entropy mode for types 10/11
	Timestamp uint32 `json:"ts"`
	SessionID uint32 `json:"sid"`
	Seq       uint32 `json:"seq"`
	// session metadata
	Status uint8 `json:"status,omitempty"`
	// data metadata
	UnAck     uint32 `json:"unack,omitempty"`
	Window    uint16 `json:"win,omitempty"`
	Fragment  uint8  `json:"frag,omitempty"`
	PrefixLen uint8  `json:"pre,omitempty"`
	// common
	PayloadLen uint16 `json:"plen,omitempty"`
	SuffixLen  uint8  `json:"suf,omitempty"`
	// low entropy extension
	LEMask      uint32 `json:"leMask,omitempty"`
	LEExtracted uint16 `json:"leLen,omitempty"`
	LERot       uint8  `json:"leRot,omitempty"`
}

func IsSession(p uint8) bool { return p >= 2 && p <= 5 }
func IsData(p uint8) bool    { return p == 6 || p == 7 || p == 10 || p == 11 }
func IsAck(p uint8) bool     { return p == 8 || p == 9 }
func IsDataAck(p uint8) bool { return IsData(p) || IsAck(p) }
func IsLE(p uint8) bool      { return p == 10 || p == 11 }

// Marshal lays the metadata out as the document specifies.
func (m Meta) Marshal() []byte {
	b := make([]byte, MetaLen)
	b[0] = m.Proto
	b[1] = m.Byte1
	binary.BigEndian.PutUint32(b[2:], m.Timestamp)
	binary.BigEndian.PutUint32(b[6:], m.SessionID)
	binary.BigEndian.PutUint32(b[10:], m.Seq)
	if IsSession(m.Proto) {
		b[14] = m.Status
		binary.BigEndian.PutUint16(b[15:], m.PayloadLen)
		b[17] = m.SuffixLen
		return b
	}
	binary.BigEndian.PutUint32(b[14:], m.UnAck)
	binary.BigEndian.PutUint16(b[18:], m.Window)
	b[20] = m.Fragment
	b[21] = m.PrefixLen
	binary.BigEndian.PutUint16(b[22:], m.PayloadLen)
	b[24] = m.SuffixLen
	if IsLE(m.Proto) {
		binary.BigEndian.PutUint32(b[25:], m.LEMask)
		binary.BigEndian.PutUint16(b[29:], m.LEExtracted)
		b[31] = m.LERot
	}
	return b
}

// ParseMeta decodes 32 bytes. Unknown protocol types are returned with the
// common prefix only and ok=false.
func ParseMeta(b []byte) (m Meta, ok bool) {
	if len(b) != MetaLen {
		return m, false
	}
	m.Proto = b[0]
	m.Byte1 = b[1]
	m.Timestamp = binary.BigEndian.Uint32(b[2:])
	m.SessionID = binary.BigEndian.Uint32(b[6:])
	m.Seq = binary.BigEndian.Uint32(b[10:])
	switch {
	case IsSession(m.Proto):
		m.Status = b[14]
		m.PayloadLen = binary.BigEndian.Uint16(b[15:])
		m.SuffixLen = b[17]
		return m, true
	case IsDataAck(m.Proto):
		m.UnAck = binary.BigEndian.Uint32(b[14:])
		m.Window = binary.BigEndian.Uint16(b[18:])
		m.Fragment = b[20]
		m.PrefixLen = b[21]
		m.PayloadLen = binary.BigEndian.Uint16(b[22:])
		m.SuffixLen = b[24]
		if IsLE(m.Proto) {
			m.LEMask = binary.BigEndian.Uint32(b[25:])
			m.LEExtracted = binary.BigEndian.Uint16(b[29:])
			m.LERot = b[31]
		}
		return m, true
	}
	return m, false
}

// UnusedBytesZero reports whether the bytes the document marks unused are 0.
func UnusedBytesZero(b []byte) bool {
	p := b[0]
	switch {
	case IsSession(p):
		if b[1] != 0 {
			return false
		}
		for _, x := range b[18:] {
			if x != 0 {
				return false
			}
		}
	case IsLE(p):
	case IsDataAck(p):
		if b[1] != 0 {
			return false
		}
		for _, x := range b[25:] {
			if x != 0 {
				return false
			}
		}
	}
	return true
}

// ---------------------------------------------------------------------------
// Low entropy codec, bit by bit from the document.

// LESourceBytes returns C for a mode (0 if invalid).
func LESourceBytes(mode uint8) int {
	switch mode {
	case 1:
		return 4
	case 2:
		return 5
	case 3:
		return 6
	case 4:
		return 7
	}
	return 0
}

// LEValidRotation: 0, 1..15, or 16*k for k in 1..15.
func LEValidRotation(r uint8) bool {
	if r <= 15 {
		return true
	}
	return r%16 == 0
}

// LEMaskForChunk rotates the 64-bit initial mask by i*R.
func LEMaskForChunk(half uint32, rot uint8, i int) uint64 {
	m := uint64(half)<<32 | uint64(half)
	if rot == 0 || i == 0 {
		return m
	}
	if rot <= 15 {
		k := (i * int(rot)) % 64
		return bits.RotateLeft64(m, -k)
	}
	k := (i * int(rot/16)) % 64
	return bits.RotateLeft64(m, k)
}

// LEEncodedLen = ceil(N/C)*8.
func LEEncodedLen(n int, mode uint8) int {
	c := LESourceBytes(mode)
	if c == 0 || n <= 0 {
		return 0
	}
	return (n + c - 1) / c * 8
}

// LEEncode encodes body as the document describes, with the given padding bit.
func LEEncode(body []byte, mode uint8, half uint32, rot uint8, padBit uint8) ([]byte, error) {
	c := LESourceBytes(mode)
	if c == 0 {
		return nil, errors.New("invalid mode")
	}
	if bits.OnesCount32(half) != c*4 {
		return nil, errors.New("wrong mask population")
	}
	if !LEValidRotation(rot) {
		return nil, errors.New("invalid rotation")
	}
	if len(body) == 0 {
		return nil, errors.New("empty body")
	}
	out := make([]byte, 0, LEEncodedLen(len(body), mode))
	for i, off := 0, 0; off < len(body); i, off = i+1, off+c {
		n := c
		if len(body)-off < n {
			n = len(body) - off
		}
		// source chunk, big endian, in the low-order bits
		var src uint64
		for _, b := range body[off : off+n] {
			src = src<<8 | uint64(b)
		}
		mask := LEMaskForChunk(half, rot, i)
		var chunk uint64
		if padBit == 1 {
			chunk = ^uint64(0)
		}
		srcBits := n * 8
		k := 0
		for pos := 0; pos < 64 && k < srcBits; pos++ {
			if mask>>uint(pos)&1 == 1 {
				bit := src >> uint(k) & 1
				if bit == 1 {
					chunk |= 1 << uint(pos)
				} else {
					chunk &^= 1 << uint(pos)
				}
				k++
			}
		}
		var cb [8]byte
		binary.BigEndian.PutUint64(cb[:], chunk)
		out = append(out, cb[:]...)
	}
	return out, nil
}

// LEDecode is the strict reference decoder: it returns the body iff enc is
// exactly what LEEncode produces for that body with padding bit 0 or 1.
func LEDecode(enc []byte, n int, mode uint8, half uint32, rot uint8) ([]byte, error) {
	c := LESourceBytes(mode)
	if c == 0 {
		return nil, errors.New("invalid mode")
	}
	if bits.OnesCount32(half) != c*4 {
		return nil, errors.New("wrong mask population")
	}
	if !LEValidRotation(rot) {
		return nil, errors.New("invalid rotation")
	}
	if n <= 0 || len(enc) != LEEncodedLen(n, mode) {
		return nil, errors.New("inconsistent lengths")
	}
	body := make([]byte, 0, n)
	padBit := -1
	for i, off := 0, 0; off < n; i, off = i+1, off+c {
		cnt := c
		if n-off < cnt {
			cnt = n - off
		}
		chunk := binary.BigEndian.Uint64(enc[i*8:])
		mask := LEMaskForChunk(half, rot, i)
		var src uint64
		k := 0
		for pos := 0; pos < 64; pos++ {
			bit := int(chunk >> uint(pos) & 1)
			if mask>>uint(pos)&1 == 1 && k < cnt*8 {
				src |= uint64(bit) << uint(k)
				k++
				continue
			}
			if padBit < 0 {
				if i != 0 {
					return nil, errors.New("internal: polarity unknown")
				}
				padBit = bit
			} else if bit != padBit {
				return nil, fmt.Errorf("mixed padding in chunk %d", i)
			}
		}
		for j := cnt - 1; j >= 0; j-- {
			body = append(body, byte(src>>uint(8*j)))
		}
	}
	return body, nil
}

// ---------------------------------------------------------------------------
// UDP associate framing

// FrameUDPAssociate wraps one raw UDP-associate packet: 0x00 len16 data 0xff.
func FrameUDPAssociate(data []byte) []byte {
	out := make([]byte, 0, len(data)+4)
	out = append(out, 0x00, byte(len(data)>>8), byte(len(data)))
	out = append(out, data...)
	return append(out, 0xff)
}

// ParseUDPAssociateFrames splits a byte stream into frames; rest is the
// incomplete tail; err reports a framing violation.
func ParseUDPAssociateFrames(b []byte) (frames [][]byte, rest []byte, err error) {
	for len(b) > 0 {
		if b[0] != 0x00 {
			return frames, b, errors.New("bad marker 1")
		}
		if len(b) < 3 {
			return frames, b, nil
		}
		n := int(b[1])<<8 | int(b[2])
		if len(b) < 3+n+1 {
			return frames, b, nil
		}
		if b[3+n] != 0xff {
			return frames, b, errors.New("bad marker 2")
		}
		frames = append(frames, append([]byte(nil), b[3:3+n]...))
		b = b[4+n:]
	}
	return frames, nil, nil
}
