// C06 — replayed handshakes are rejected without a reply.
// (b) cache model: replay.NewCache / IsDuplicate against an ideal bounded set
// (this file). (a) end to end: e2e_test.go. See DESIGN.md section 3.6.
package c06

import (
	"fmt"
	"testing"
	"time"

	"github.com/enfein/mieru/v3/pkg/replay"
	"pgregory.net/rapid"

	"verif/harness/pbt"
)

type COp struct {
	Sleep int `json:"s,omitempty"` // sleep class before the operation, see sleepFor
	Item  int `json:"i"`
	Tag   int `json:"t"` // 0 empty, 1 "a", 2 "b"
}

type CacheCase struct {
	Capacity   int   `json:"capacity"`
	IntervalMs int   `json:"intervalMs"`
	Ops        []COp `json:"ops"`
	// Shape of the 16-byte items (what the underlays submit: the first 16 bytes
	// of a segment): 0 text (legacy), 1 a common 12-byte prefix and a 4-byte
	// tail (a FIXED nonce pattern pins up to 12 leading bytes), 2 a 4-byte head
	// and a common 12-byte tail, 3 differ in one bit only
	Shape int `json:"shape,omitempty"`
}

func itemBytes(shape, item int) []byte {
	id := []byte{byte(item >> 24), byte(item >> 16), byte(item >> 8), byte(item)}
	common := []byte("\x87\x00\xa0\xf1\x01\x6a\x44\x1d\x02\x02\x83\xd9")
	switch shape {
	case 1:
		return append(append([]byte(nil), common...), id...)
	case 2:
		return append(append([]byte(nil), id...), common...)
	case 3:
		b := make([]byte, 16)
		b[(item/8)%16] = 1 << uint(item%8)
		return b
	}
	return []byte(fmt.Sprintf("item-%d-signature-bytes", item))
}

var tags = []string{"", "10.0.0.1:5000", "10.0.0.2:5000"}

func genCache(t *rapid.T) CacheCase {
	c := CacheCase{Capacity: rapid.IntRange(2, 8).Draw(t, "capacity"), IntervalMs: rapid.SampledFrom([]int{30, 50, 80}).Draw(t, "interval")}
	n := rapid.IntRange(2, 40).Draw(t, "nOps")
	pool := rapid.SampledFrom([]int{3, 6, 12, 30}).Draw(t, "pool")
	tagMode := rapid.IntRange(0, 3).Draw(t, "tagMode")
	c.Shape = rapid.IntRange(0, 3).Draw(t, "shape")
	for i := 0; i < n; i++ {
		op := COp{Item: rapid.IntRange(0, pool-1).Draw(t, "item")}
		op.Sleep = rapid.SampledFrom([]int{0, 0, 0, 0, 1, 2, 3, 4, 5, 6}).Draw(t, "sleep")
		switch tagMode {
		case 0:
			op.Tag = 0
		case 1:
			op.Tag = 1
		default:
			op.Tag = rapid.IntRange(0, 2).Draw(t, "tag")
		}
		c.Ops = append(c.Ops, op)
	}
	return c
}

func sleepFor(class int, interval time.Duration) time.Duration {
	switch class {
	case 1:
		return time.Millisecond
	case 2:
		return interval / 2
	case 3:
		return interval - 8*time.Millisecond
	case 4:
		return interval + 3*time.Millisecond
	case 5:
		return 2*interval + 3*time.Millisecond
	case 6:
		return 5 * time.Millisecond
	}
	return 0
}

type itemState struct {
	submitted bool
	recBefore time.Time    // clock reading before the call that recorded the item
	others    map[int]bool // distinct other items submitted since
	tagsUsed  map[int]bool // tags of all submissions since (and including) the recording one
	recTag    int          // tag of the recording submission
}

func propCache(c CacheCase) (o pbt.Outcome) {
	interval := time.Duration(c.IntervalMs) * time.Millisecond
	cache := replay.NewCache(c.Capacity, interval)
	items := map[int]*itemState{}
	obligations := 0
	crossedSize, crossedTime := false, false
	distinctSince := map[int]bool{}
	var history []string
	for k, op := range c.Ops {
		if d := sleepFor(op.Sleep, interval); d > 0 {
			time.Sleep(d)
			if d > interval {
				crossedTime = true
			}
		}
		data := itemBytes(c.Shape, op.Item)
		st := items[op.Item]
		if st == nil {
			st = &itemState{others: map[int]bool{}, tagsUsed: map[int]bool{}}
			items[op.Item] = st
		}
		before := time.Now()
		got := cache.IsDuplicate(data, tags[op.Tag])
		after := time.Now()
		history = append(history, fmt.Sprintf("%d:item%d/tag%d=%v", k, op.Item, op.Tag, got))
		distinctSince[op.Item] = true
		if len(distinctSince) > c.Capacity {
			crossedSize = true
		}

		if !st.submitted {
			if got {
				o.Failf("false-replay", "op %d: item %d was never submitted before, yet it is reported as a replay; history %v", k, op.Item, history)
				return
			}
		} else {
			ageUpper := after.Sub(st.recBefore)
			if ageUpper < interval && len(st.others) < c.Capacity {
				// the cache must still know the item
				// Only a pure same-tag history is a retransmission. As soon as the
				// item has been submitted with any other tag (or without one) since
				// it was recorded, a further submission is a replay, whatever tag
				// the replayer used for its own earlier attempts.
				sameNonEmpty := op.Tag != 0 && len(st.tagsUsed) == 1 && st.tagsUsed[op.Tag]
				// the recording sender may retransmit under its own tag; anybody else
				// (another tag, or no tag on either side) is a replayer
				mustTrue := op.Tag == 0 || st.recTag == 0 || op.Tag != st.recTag
				switch {
				case sameNonEmpty:
					obligations++
					if got {
						o.Failf("same-tag", "op %d: item %d resubmitted with the same non-empty tag must not be a duplicate (retransmission rule); history %v", k, op.Item, history)
						return
					}
				case mustTrue:
					obligations++
					if !got {
						sig := "missed-replay"
						if op.Tag != 0 && st.tagsUsed[op.Tag] && op.Tag != st.recTag {
							sig = "missed-replay/replayer-tag-recorded"
						}
						o.Failf(sig, "op %d: item %d was recorded < %v ago (at most %v) and followed by %d < %d other distinct items, yet it is not reported; capacity=%d history %v",
							k, op.Item, interval, ageUpper, len(st.others), c.Capacity, c.Capacity, history)
						return
					}
				}
			}
		}
		// model update
		ambiguous := st.submitted && !got && op.Tag != 0 && st.tagsUsed[op.Tag]
		if ambiguous {
			// "false" may mean "known, same tag" (not re-recorded) or "unknown,
			// recorded now": keep the older recording time, which only weakens
			// later obligations.
			st.tagsUsed[op.Tag] = true
		} else if !st.submitted || !got {
			// (re-)recorded by this call
			st.submitted = true
			st.recBefore = before
			st.others = map[int]bool{}
			st.tagsUsed = map[int]bool{op.Tag: true}
			st.recTag = op.Tag
		} else {
			st.tagsUsed[op.Tag] = true
		}
		for id, other := range items {
			if id != op.Item && other.submitted {
				other.others[op.Item] = true
			}
		}
	}
	o.NonTrivial = obligations > 0 && (crossedSize || crossedTime)
	o.Label("obligations>0=%v", obligations > 0)
	o.Label("crossedSize=%v", crossedSize)
	o.Label("crossedTime=%v", crossedTime)
	o.Label("itemShape=%d", c.Shape)
	return
}

func TestC06Cache(t *testing.T) {
	pbt.Run(t, "C06", "cache", genCache, propCache)
}
