package c06

import (
	"net"
	"testing"
	"time"

	"pgregory.net/rapid"

	"verif/harness/e2e"
	"verif/harness/pbt"
	"verif/harness/refproto"
	"verif/harness/simnet"
)

// (a) end to end: byte-exact copies of traffic the server has accepted are
// presented again and must be ignored silently.

type ReplayCase struct {
	UDP      bool `json:"udp,omitempty"`
	NoWait   bool `json:"noWait,omitempty"`
	What     int  `json:"what"`               // 0 whole client->server stream, 1 prefix ending at a segment boundary, 2 first segment alone, 3 (UDP) everything but the first datagram, 4 (UDP) one datagram alone
	Sessions int  `json:"sessions,omitempty"` // genuine sessions multiplexed on the recorded connection / socket (default 1)
	// Cross: the server listens on both transports (same port, as in the
	// documented port bindings) and the copy is presented on the OTHER transport:
	// recorded datagrams are written to a TCP connection one by one, a
	// recorded TCP segment is sent as one datagram.
	Cross bool `json:"cross,omitempty"`
	// Restart: between recording and replay the server (and client) are
	// stopped and a new server is started in the same process on the same port.
	Restart   bool            `json:"restart,omitempty"`
	Boundary  int             `json:"boundary,omitempty"`
	DelayMs   int             `json:"delayMs,omitempty"`
	AfterEnd  bool            `json:"afterEnd,omitempty"` // the original session is closed before the replay
	SameIP    bool            `json:"sameIP,omitempty"`   // TCP only: replay from the original client's IP address
	Fresh     bool            `json:"fresh,omitempty"`    // a fresh genuine connection runs concurrently
	Times     int             `json:"times"`              // how many times the copy is presented
	Up        []int           `json:"up"`
	Down      []int           `json:"down"`
	ClientPat e2e.PatternSpec `json:"clientPattern"`
	ServerPat e2e.PatternSpec `json:"serverPattern"`
	Salt      uint64          `json:"salt"`
}

func genReplay(t *rapid.T) ReplayCase {
	var c ReplayCase
	c.UDP = rapid.Bool().Draw(t, "udp")
	c.NoWait = rapid.Bool().Draw(t, "noWait")
	c.What = rapid.SampledFrom([]int{0, 1, 2, 3, 4, 5, 5}).Draw(t, "what")
	c.Sessions = rapid.SampledFrom([]int{1, 1, 2, 3}).Draw(t, "sessions")
	if c.What == 5 && c.Sessions < 2 {
		c.Sessions = 2 // a later open session request exists only on a multiplexed connection
	}
	c.Boundary = rapid.IntRange(1, 8).Draw(t, "boundary")
	// 6500 ms is longer than the server's 5 s session clean-up tick: the
	// recorded sessions are gone from its table when the copy arrives
	c.DelayMs = rapid.SampledFrom([]int{0, 0, 1, 20, 300, 3000, 6500}).Draw(t, "delay")
	if !pbt.Thorough() && c.DelayMs > 300 && rapid.IntRange(0, 2).Draw(t, "keepLong") != 0 {
		c.DelayMs = 300
	}
	c.AfterEnd = rapid.Bool().Draw(t, "afterEnd")
	c.SameIP = rapid.Bool().Draw(t, "sameIP")
	c.Fresh = rapid.Bool().Draw(t, "fresh")
	c.Times = rapid.IntRange(1, 3).Draw(t, "times")
	sz := []int{0, 1, 100, 1024, 1500, 5000}
	for i := rapid.IntRange(1, 3).Draw(t, "nUp"); i > 0; i-- {
		c.Up = append(c.Up, rapid.SampledFrom(sz).Draw(t, "up"))
	}
	for i := rapid.IntRange(0, 3).Draw(t, "nDown"); i > 0; i-- {
		c.Down = append(c.Down, rapid.SampledFrom(sz).Draw(t, "down"))
	}
	c.ClientPat = e2e.GenPattern(t, "cp", 1)
	c.ServerPat = e2e.GenPattern(t, "sp", 1)
	c.Salt = rapid.Uint64().Draw(t, "salt")
	c.Restart = rapid.IntRange(0, 5).Draw(t, "restart") == 0
	if rapid.IntRange(0, 3).Draw(t, "cross") == 0 {
		c.Cross = true
		if rapid.Bool().Draw(t, "crossLE") {
			// a low-entropy client never piggybacks data on its open request, so
			// the request is metadata only
			m := int32(rapid.IntRange(1, 4).Draw(t, "crossLEMode"))
			c.ClientPat.Nil = false
			c.ClientPat.HasLE, c.ClientPat.LEMode = true, &m
		}
	}
	return c
}

func propReplay(c ReplayCase) (o pbt.Outcome) {
	cfg := e2e.Config{UDP: c.UDP, NoWait: c.NoWait, ClientPattern: c.ClientPat, ServerPattern: c.ServerPat, BothTransports: c.Cross}
	nSess := c.Sessions
	if nSess < 1 {
		nSess = 1
	}
	if nSess > 1 {
		cfg.Multiplex = 4
	}
	sn := simnet.NewStreamNet(simnet.StreamOpts{Record: true})
	pn := simnet.NewPacketNet()
	tStart := time.Now()
	env, err := e2e.Start(cfg, sn, pn)
	if err != nil {
		o.Failf("start", "start: %v", err)
		return
	}
	defer env.StopBounded(3 * time.Second)
	// the genuine, recorded session
	var progs []e2e.SessProg
	for i := 0; i < nSess; i++ {
		progs = append(progs, e2e.SessProg{Up: e2e.DirProg{Writes: c.Up}, Down: e2e.DirProg{Writes: c.Down}})
	}
	res := e2e.RunTransfer(env, progs,
		e2e.TransferOpts{Salt: c.Salt, StallAfter: 20 * time.Second, MaxWall: 40 * time.Second, KeepOpen: !c.AfterEnd})
	for _, s0 := range res.Sessions {
		if s0.OpenErr != "" || !s0.Up.DoneReading || !s0.Down.DoneReading {
			o.Inconclusive = "the genuine sessions did not complete"
			return
		}
	}
	if c.AfterEnd {
		time.Sleep(5 * time.Millisecond)
	}
	genuineAccepts := env.Accepts()

	// what the attacker recorded
	var tcpCopy []byte
	var udpCopy [][]byte
	keys, _ := e2e.KeysFor(e2e.DefaultUsers, tStart, time.Now())
	decryptable := false
	var clientIP net.IP
	if !c.UDP {
		links := sn.Links()
		if len(links) == 0 {
			o.Inconclusive = "no link recorded"
			return
		}
		raw := links[0].SentC2S()
		clientIP = links[0].ClientAddr.IP
		segs, _, _ := refproto.DecodeStream(raw, keys)
		if len(segs) == 0 {
			o.Inconclusive = "recorded stream does not decode"
			return
		}
		decryptable = true
		switch c.What {
		case 0:
			tcpCopy = raw
		case 1:
			k := c.Boundary
			if k > len(segs) {
				k = len(segs)
			}
			tcpCopy = raw[:segs[k-1].Ext.End]
		case 5:
			// A later open session request of the multiplexed connection, cut out
			// and presented as the first segment of a new connection under the
			// nonce it was sealed with (first nonce + number of earlier AEAD
			// operations): bytes the server has accepted, re-framed by an observer
			// who knows no key.
			tcpCopy = raw[:segs[0].Ext.End]
			for k := 1; k < len(segs); k++ {
				if segs[k].Meta.Proto == refproto.OpenSessionRequest && len(segs[k].MetaNonce) == refproto.NonceLen {
					tcpCopy = append(append([]byte(nil), segs[k].MetaNonce...), raw[segs[k].Ext.NonceEnd:segs[k].Ext.End]...)
					o.Label("splicedLaterOpenRequest")
					break
				}
			}
		default:
			tcpCopy = raw[:segs[0].Ext.End]
		}
	} else {
		// what the attacker copies is traffic the server has already taken off
		// its socket: a datagram still waiting in the socket queue when the copy
		// is made (the server may be stopped before it reads it - restart class,
		// loaded machine) is not "traffic the server has already accepted"
		dgrams, events := pn.Snapshot()
		delivered := map[int]bool{}
		for _, ev := range events {
			if ev.Kind == simnet.EvDeliver {
				delivered[ev.Idx] = true
			}
		}
		for _, d := range dgrams {
			if d.From.Port != 7000 && delivered[d.Idx] {
				udpCopy = append(udpCopy, d.Data)
			}
		}
		if len(udpCopy) == 0 {
			o.Inconclusive = "no datagram recorded"
			return
		}
		if _, err := refproto.DecodeDatagram(udpCopy[0], keys); err == nil {
			decryptable = true
		}
		switch c.What {
		case 1:
			k := c.Boundary
			if k > len(udpCopy) {
				k = len(udpCopy)
			}
			udpCopy = udpCopy[:k]
		case 2:
			udpCopy = udpCopy[:1]
		case 3:
			if len(udpCopy) > 1 {
				udpCopy = udpCopy[1:]
			}
		case 4:
			k := c.Boundary % len(udpCopy)
			udpCopy = udpCopy[k : k+1]
		}
	}
	if c.DelayMs > 0 {
		time.Sleep(time.Duration(c.DelayMs) * time.Millisecond)
	}

	if c.Restart {
		if !env.StopBounded(20 * time.Second) {
			o.Inconclusive = "restart: the first server did not stop within 20 s"
			return
		}
		env2, err := e2e.Start(cfg, sn, pn)
		if err != nil {
			o.Inconclusive = "restart: " + err.Error()
			return
		}
		env = env2
		defer env2.StopBounded(3 * time.Second)
		genuineAccepts = 0
	}
	// concurrently, a fresh genuine connection must still work
	freshDone := make(chan *e2e.RunResult, 1)
	if c.Fresh {
		go func() {
			freshDone <- e2e.RunTransfer(env, []e2e.SessProg{{Up: e2e.DirProg{Writes: []int{700, 3}}, Down: e2e.DirProg{Writes: []int{900}}}},
				e2e.TransferOpts{Salt: c.Salt + 1, StallAfter: 20 * time.Second, MaxWall: 40 * time.Second, IdxBase: 100})
		}()
	}

	attackerIP := net.IPv4(10, 77, 0, 9)
	var links []*simnet.Link
	var addrs []string
	// which transport carries the copy
	copyOverTCP := !c.UDP
	if c.Cross {
		copyOverTCP = c.UDP
		if c.UDP {
			// datagrams, one after the other, as a byte stream
			tcpCopy = nil
			for _, d := range udpCopy {
				tcpCopy = append(tcpCopy, d...)
			}
		} else {
			// the recorded stream up to the chosen boundary as single datagrams:
			// the first segment alone, and the whole copy
			segsRaw, _, _ := refproto.DecodeStream(tcpCopy, keys)
			udpCopy = nil
			if len(segsRaw) > 0 {
				udpCopy = append(udpCopy, tcpCopy[:segsRaw[0].Ext.End])
			}
			if len(tcpCopy) <= 1500 {
				udpCopy = append(udpCopy, tcpCopy)
			}
		}
	}
	for i := 0; i < c.Times; i++ {
		if copyOverTCP {
			src := attackerIP
			if c.SameIP && clientIP != nil {
				src = clientIP
			}
			conn, link, err := sn.DialLinkFrom("10.0.0.1:7000", src)
			if err != nil {
				o.Failf("harness", "dial: %v", err)
				return
			}
			links = append(links, link)
			conn.SetWriteDeadline(time.Now().Add(3 * time.Second))
			conn.Write(tcpCopy)
			defer conn.Close()
		} else {
			sock, err := pn.Bind(net.IPv4(10, 77, 0, byte(10+i)), 0)
			if err != nil {
				o.Failf("harness", "bind: %v", err)
				return
			}
			defer sock.Close()
			addrs = append(addrs, sock.LocalAddr().String())
			for _, d := range udpCopy {
				sock.WriteTo(d, &net.UDPAddr{IP: net.IPv4(10, 0, 0, 1), Port: 7000})
			}
		}
	}
	time.Sleep(150 * time.Millisecond)
	freshAccepts := 0
	if c.Fresh {
		select {
		case fr := <-freshDone:
			for i, s := range fr.Sessions {
				if s.OpenErr != "" || s.Up.Mismatch != "" || s.Down.Mismatch != "" || !s.Up.DoneReading || !s.Down.DoneReading {
					o.Failf("false-replay", "a fresh genuine connection failed while a replay was presented: session %d %+v", i, s)
					return
				}
			}
			freshAccepts = len(fr.Sessions)
		case <-time.After(45 * time.Second):
			o.Inconclusive = "fresh genuine connection did not finish"
			return
		}
	}
	for _, l := range links {
		if n := l.BytesS2C(); n != 0 {
			o.Failf("reply-tcp", "the server wrote %d bytes in reply to a byte-exact copy (%d bytes, what=%d, recorded on the other transport: %v) of traffic it had already accepted", n, len(tcpCopy), c.What, c.Cross)
			return
		}
	}
	dgrams, _ := pn.Snapshot()
	for _, d := range dgrams {
		for _, a := range addrs {
			if d.To.String() == a {
				what := "undecodable"
				keys2, _ := e2e.KeysFor(e2e.DefaultUsers, tStart, time.Now())
				if seg, err := refproto.DecodeDatagram(d.Data, keys2); err == nil {
					what = e2e.DescribeSeg(seg)
				}
				o.Failf("reply-udp", "the server sent a %d-byte datagram (%s) to %s in reply to replayed datagrams (recorded on the other transport: %v)", len(d.Data), what, a, c.Cross)
				return
			}
		}
	}
	if got := env.Accepts(); got > genuineAccepts+freshAccepts {
		o.Failf("session", "a replay reached the proxy application: %d proxy connections accepted, %d genuine", got, genuineAccepts+freshAccepts)
		return
	}
	o.NonTrivial = decryptable
	o.Label("udp=%v", c.UDP)
	o.Label("what=%d", c.What)
	o.Label("afterEnd=%v", c.AfterEnd)
	o.Label("sessions=%d", nSess)
	o.Label("crossTransport=%v", c.Cross)
	o.Label("serverRestarted=%v", c.Restart)
	o.Label("afterCleanup=%v", c.AfterEnd && c.DelayMs > 5000)
	o.Label("fresh=%v", c.Fresh)
	o.Label("delay>=300=%v", c.DelayMs >= 300)
	return
}

func TestC06Replay(t *testing.T) {
	pbt.Run(t, "C06", "replay", genReplay, propReplay)
}
