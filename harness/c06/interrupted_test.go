package c06

import (
	"context"
	"net"
	"sync"
	"testing"
	"time"

	"pgregory.net/rapid"

	"verif/harness/e2e"
	"verif/harness/pbt"
	"verif/harness/refproto"
	"verif/harness/simnet"
)

// (c) the original is still on its way, or never arrives completely: the
// network delivers the genuine first segment only up to a cut inside it (at or
// behind the end of its 72-byte header), and an observer that saw the whole
// segment leave the client presents a byte-exact copy of it on a new
// connection - while the rest of the original is held back (and delivered
// later), or after the original connection was reset. The server has taken the
// original's header off the wire before the copy is sent, so the copy is a
// copy of traffic it has already accepted: no reply, no session for it; and the
// held original, once completed, is not a replay.

type holdFilter struct {
	mu   sync.Mutex
	pass int
	held []byte
}

func (f *holdFilter) Filter(p []byte) []byte {
	f.mu.Lock()
	defer f.mu.Unlock()
	if f.pass >= len(p) {
		f.pass -= len(p)
		return p
	}
	out := p[:f.pass]
	f.held = append(f.held, p[f.pass:]...)
	f.pass = 0
	return out
}
func (f *holdFilter) Close() []byte { return nil }
func (f *holdFilter) take() []byte {
	f.mu.Lock()
	defer f.mu.Unlock()
	h := f.held
	f.held = nil
	f.pass = 1 << 40 // from now on everything passes
	return h
}

type InterruptedCase struct {
	NoWait      bool            `json:"noWait,omitempty"`
	CutBeyond   int             `json:"cutBeyond"`   // the network delivers the first 72+CutBeyond bytes of the genuine connection (negative: fewer than a header)
	Reset       bool            `json:"reset"`       // true: the genuine connection is reset after the cut; false: the rest is held and delivered later
	CopyDelayMs int             `json:"copyDelayMs"` // between "the server has the header" and the copy
	HoldMs      int             `json:"holdMs"`      // how long after the copy the rest of the original is delivered
	Times       int             `json:"times"`
	FirstWrite  int             `json:"firstWrite"`
	SameIP      bool            `json:"sameIP,omitempty"`
	ClientPat   e2e.PatternSpec `json:"clientPattern"`
	Salt        uint64          `json:"salt"`
}

func genInterrupted(t *rapid.T) InterruptedCase {
	var c InterruptedCase
	c.NoWait = rapid.Bool().Draw(t, "noWait")
	c.CutBeyond = rapid.SampledFrom([]int{0, 0, 1, 7, 16, 17, 40, 100, 300, 1200, -1, -40}).Draw(t, "cutBeyond")
	c.Reset = rapid.Bool().Draw(t, "reset")
	c.CopyDelayMs = rapid.SampledFrom([]int{20, 50, 300, 1000}).Draw(t, "copyDelay")
	c.HoldMs = rapid.SampledFrom([]int{50, 300, 1500}).Draw(t, "hold")
	c.Times = rapid.IntRange(1, 2).Draw(t, "times")
	c.FirstWrite = rapid.SampledFrom([]int{1, 100, 900, 1024, 2000}).Draw(t, "firstWrite")
	c.SameIP = rapid.Bool().Draw(t, "sameIP")
	c.ClientPat = e2e.GenPattern(t, "cp", 1)
	c.Salt = rapid.Uint64().Draw(t, "salt")
	return c
}

func propInterrupted(c InterruptedCase) (o pbt.Outcome) {
	cfg := e2e.Config{NoWait: c.NoWait, ClientPattern: c.ClientPat}
	filt := &holdFilter{pass: 72 + c.CutBeyond}
	sn := simnet.NewStreamNet(simnet.StreamOpts{Record: true, NewFilter: func(linkID, dir int) simnet.StreamFilter {
		if linkID == 0 && dir == 0 {
			return filt
		}
		return nil
	}})
	pn := simnet.NewPacketNet()
	tStart := time.Now()
	env, err := e2e.Start(cfg, sn, pn)
	if err != nil {
		o.Failf("start", "start: %v", err)
		return
	}
	defer env.StopBounded(3 * time.Second)

	// the genuine client: dials and writes; it will not get anywhere until the
	// rest of its first segment is delivered
	type gres struct {
		conn net.Conn
		err  error
	}
	gdone := make(chan gres, 1)
	go func() {
		ctx, cancel := context.WithTimeout(context.Background(), 12*time.Second)
		defer cancel()
		conn, err := env.Dial(ctx, 0)
		if err == nil {
			p := make([]byte, c.FirstWrite)
			e2e.PRFFill(e2e.StreamKey(c.Salt, 0, 0), 0, p)
			conn.SetDeadline(time.Now().Add(12 * time.Second))
			_, err = conn.Write(p)
		}
		gdone <- gres{conn, err}
	}()
	// wait until the server end has taken the delivered part off the wire
	var link *simnet.Link
	want := int64(72 + c.CutBeyond)
	deadline := time.Now().Add(5 * time.Second)
	for {
		if ls := sn.Links(); len(ls) > 0 {
			link = ls[0]
			if link.ReadC2S() >= want && link.BytesC2S() > want {
				break
			}
			// the cut lies behind everything the client sends before it gets
			// an answer: the whole first segment was delivered (ordinary replay)
			if time.Since(tStart) > 1500*time.Millisecond && link.BytesC2S() >= 72 && link.ReadC2S() == link.BytesC2S() {
				break
			}
		}
		if time.Now().After(deadline) {
			o.Inconclusive = "the genuine first segment did not appear on the wire"
			return
		}
		time.Sleep(2 * time.Millisecond)
	}
	time.Sleep(time.Duration(c.CopyDelayMs) * time.Millisecond)
	raw := link.SentC2S()
	keys, _ := e2e.KeysFor(e2e.DefaultUsers, tStart, time.Now())
	segs, _, _ := refproto.DecodeStream(raw, keys)
	if len(segs) == 0 {
		o.Inconclusive = "the recorded first segment does not decode (not completely written yet)"
		return
	}
	first := raw[:segs[0].Ext.End]
	inside := int(want) < len(first)
	headerDelivered := c.CutBeyond >= 0
	if c.Reset {
		link.Reset()
		time.Sleep(30 * time.Millisecond)
	}
	src := net.IPv4(10, 77, 0, 9)
	if c.SameIP {
		src = link.ClientAddr.IP
	}
	var links []*simnet.Link
	for i := 0; i < c.Times; i++ {
		conn, l, err := sn.DialLinkFrom("10.0.0.1:7000", src)
		if err != nil {
			o.Failf("harness", "dial: %v", err)
			return
		}
		defer conn.Close()
		links = append(links, l)
		conn.SetWriteDeadline(time.Now().Add(3 * time.Second))
		conn.Write(first)
	}
	time.Sleep(time.Duration(c.HoldMs) * time.Millisecond)
	genuineOK := false
	if !c.Reset {
		// the network delivers the rest of the original
		link.InjectC2S(filt.take())
		select {
		case g := <-gdone:
			if g.err == nil {
				// the server application must get what the genuine client wrote
				if sc, err := env.ServerSide(0, 10*time.Second); err == nil {
					buf := make([]byte, c.FirstWrite)
					sc.Conn.SetReadDeadline(time.Now().Add(10 * time.Second))
					got := 0
					for got < len(buf) {
						n, err := sc.Conn.Read(buf[got:])
						got += n
						if err != nil {
							break
						}
					}
					genuineOK = got == len(buf)
					sc.Conn.Close()
				}
				g.conn.Close()
			}
		case <-time.After(15 * time.Second):
		}
	} else {
		filt.take()
		select {
		case g := <-gdone:
			if g.conn != nil {
				g.conn.Close()
			}
		case <-time.After(15 * time.Second):
		}
	}
	time.Sleep(100 * time.Millisecond)
	o.Label("cutInsideFirstSegment=%v", inside)
	o.Label("headerDelivered=%v", headerDelivered)
	o.Label("reset=%v", c.Reset)
	o.Label("noWait=%v", c.NoWait)
	o.NonTrivial = headerDelivered && inside
	o.Obs = map[string]any{"firstSegmentLen": len(first), "deliveredBeforeCopy": want, "genuineCompleted": genuineOK, "accepts": env.Accepts()}
	if !headerDelivered {
		return // the server never had the original's header: the copy is the first arrival, nothing is asserted
	}
	for _, l := range links {
		if n := l.BytesS2C(); n != 0 {
			o.Failf("interrupted/reply", "the server had taken %d bytes of a genuine %d-byte first segment off the wire (reset afterwards: %v) and then wrote %d bytes in reply to a byte-exact copy of that segment presented on a new connection", want, len(first), c.Reset, n)
			return
		}
	}
	maxAccepts := 0
	if !c.Reset || !inside {
		maxAccepts = 1 // the original was (or will have been) delivered completely
	}
	if got := env.Accepts(); got > maxAccepts {
		o.Failf("interrupted/session", "%d proxy connections reached the application, at most %d genuine (the copy of a first segment whose original the server was still receiving, or had received in part, opened a session)", got, maxAccepts)
		return
	}
	if !c.Reset && !genuineOK {
		o.Failf("interrupted/false-replay", "the genuine connection, completed %d ms after a copy of its first segment had been presented elsewhere, did not deliver its %d bytes to the server application", c.HoldMs, c.FirstWrite)
	}
	return
}

func TestC06Interrupted(t *testing.T) {
	pbt.Run(t, "C06", "interrupted", genInterrupted, propInterrupted)
}
