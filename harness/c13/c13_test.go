// C13 — acks never run ahead of receipt; retransmissions never change content;
// sequence numbers are assigned from zero without gaps or reuse.
// A wire monitor over the totally ordered send/deliver log of simnet.
// See DESIGN.md section 3.13.
package c13

import (
	"testing"
	"time"

	"verif/harness/pbt"
	"verif/harness/udprun"
	"verif/harness/wiremon"
)

func prop(c udprun.Case) (o pbt.Outcome) {
	maxWall := 100 * time.Second
	if c.Heavy {
		maxWall = 300 * time.Second
	}
	res := udprun.Run(c, udprun.RunOpts{StallAfter: 45 * time.Second, MaxWall: maxWall})
	if res.StartErr != "" {
		o.Failf("start", "valid configuration did not start: %s", res.StartErr)
		return
	}
	sig, msg, st := wiremon.Check(res.Events, res.Datagrams)
	if sig != "" {
		o.Failf(sig, "%s", msg)
		o.Obs = res.Describe()
		return
	}
	retrans, gapAcks, acks := st.Retrans, st.GapAcks, st.Acks
	o.NonTrivial = retrans > 0 || gapAcks > 0
	o.Label("retrans>0=%v", retrans > 0)
	o.Label("gapAcks>0=%v", gapAcks > 0)
	o.Label("acks>0=%v", acks > 0)
	o.Label("drops>0=%v", res.Drops > 0)
	o.Label("rawClient=%v", c.Cfg.RawClient)
	return
}

func TestC13(t *testing.T) {
	pbt.Run(t, "C13", "wire", udprun.Gen, prop)
}
