// C13 — acks never run ahead of receipt; retransmissions never change content;
// sequence numbers are assigned from zero without gaps or reuse.
// A wire monitor over the totally ordered send/deliver log of simnet.
// See DESIGN.md section 3.13.
package c13

import (
	"bytes"
	"fmt"
	"testing"
	"time"

	"verif/harness/e2e"
	"verif/harness/pbt"
	"verif/harness/refproto"
	"verif/harness/simnet"
	"verif/harness/udprun"
)

type stream struct {
	endpoint string // sender address
	sid      uint32
}

type firstTx struct {
	proto   uint8
	frag    uint8
	payload []byte
	leLen   uint16
}

func isSeqBearing(p uint8) bool {
	return p == refproto.OpenSessionRequest || p == refproto.OpenSessionResponse || refproto.IsData(p)
}

func prop(c udprun.Case) (o pbt.Outcome) {
	maxWall := 100 * time.Second
	if c.Heavy {
		maxWall = 300 * time.Second
	}
	res := udprun.Run(c, udprun.RunOpts{StallAfter: 45 * time.Second, MaxWall: maxWall})
	if res.StartErr != "" {
		o.Failf("start", "valid configuration did not start: %s", res.StartErr)
		return
	}
	byIdx := map[int]*e2e.DecodedDatagram{}
	for _, d := range res.Datagrams {
		byIdx[d.D.Idx] = d
	}
	// delivered[receiver endpoint][session] = set of peer sequence numbers handed to the endpoint
	delivered := map[stream]map[uint32]bool{}
	first := map[stream]map[uint32]*firstTx{}
	nextFirst := map[stream]uint32{}
	retrans, gapAcks, acks := 0, 0, 0
	for _, ev := range res.Events {
		d := byIdx[ev.Idx]
		if d == nil || d.Seg == nil {
			continue
		}
		m := d.Seg.Meta
		switch ev.Kind {
		case simnet.EvDeliver:
			if isSeqBearing(m.Proto) {
				k := stream{ev.To, m.SessionID}
				if delivered[k] == nil {
					delivered[k] = map[uint32]bool{}
				}
				delivered[k][m.Seq] = true
			}
		case simnet.EvSend:
			sender := d.D.From.String()
			k := stream{sender, m.SessionID}
			where := fmt.Sprintf("datagram %d from %s %s", d.D.Idx, sender, e2e.DescribeSeg(d.Seg))
			// (1) cumulative ack never ahead of receipt
			if refproto.IsDataAck(m.Proto) {
				acks++
				got := delivered[k]
				gap := false
				for s := uint32(0); s < m.UnAck; s++ {
					if !got[s] {
						o.Failf("ack-ahead", "%s acknowledges everything below %d, but sequence number %d of session %d was never delivered to it", where, m.UnAck, s, m.SessionID)
						o.Obs = res.Describe()
						return
					}
				}
				for s := range got {
					if s > m.UnAck {
						gap = true
					}
				}
				if gap {
					gapAcks++
				}
			}
			// (2) retransmissions identical; (3) sequence numbers dense from zero
			if isSeqBearing(m.Proto) {
				if first[k] == nil {
					first[k] = map[uint32]*firstTx{}
				}
				if f, ok := first[k][m.Seq]; ok {
					retrans++
					if f.proto != m.Proto || f.frag != m.Fragment || !bytes.Equal(f.payload, d.Seg.Payload) || f.leLen != m.LEExtracted {
						o.Failf("retrans-differs", "%s: retransmission of sequence number %d differs from its first transmission (type %d->%d, fragment %d->%d, payload %d->%d bytes, equal=%v)",
							where, m.Seq, f.proto, m.Proto, f.frag, m.Fragment, len(f.payload), len(d.Seg.Payload), bytes.Equal(f.payload, d.Seg.Payload))
						o.Obs = res.Describe()
						return
					}
				} else {
					if m.Seq != nextFirst[k] {
						o.Failf("seq-order", "%s: first transmission carries sequence number %d, expected %d (numbers are assigned from zero without gaps)", where, m.Seq, nextFirst[k])
						o.Obs = res.Describe()
						return
					}
					nextFirst[k] = m.Seq + 1
					first[k][m.Seq] = &firstTx{proto: m.Proto, frag: m.Fragment, payload: d.Seg.Payload, leLen: m.LEExtracted}
				}
			}
		}
	}
	o.NonTrivial = retrans > 0 || gapAcks > 0
	o.Label("retrans>0=%v", retrans > 0)
	o.Label("gapAcks>0=%v", gapAcks > 0)
	o.Label("acks>0=%v", acks > 0)
	o.Label("drops>0=%v", res.Drops > 0)
	o.Label("rawClient=%v", c.Cfg.RawClient)
	return
}

func TestC13(t *testing.T) {
	pbt.Run(t, "C13", "wire", udprun.Gen, prop)
}
