//go:build verif

// C07 — sessions are attributed to the authenticating user despite caches
// and reloads. White-box through the serveruser hooks. DESIGN.md section 3.7.
package c07

import (
	"crypto/sha256"
	"encoding/hex"
	"fmt"
	"net"
	"sort"
	"testing"
	"time"

	pb "github.com/enfein/mieru/v3/pkg/appctl/appctlpb"
	"github.com/enfein/mieru/v3/pkg/protocol/serveruser"
	"google.golang.org/protobuf/proto"
	"pgregory.net/rapid"

	"verif/harness/pbt"
	"verif/harness/refproto"
)

// ---- deterministic tables built once ----------------------------------------

// collision: two user names with the same 4-byte hint for a given nonce prefix.
type collision struct {
	prefix [16]byte
	a, b   string
}

var collisions []collision

// sameBucket: source addresses that share one cache bucket.
var sameBucket []net.IP

func init() {
	for p := 0; p < 3; p++ {
		var prefix [16]byte
		for i := range prefix {
			prefix[i] = byte(p*37 + i*11 + 1)
		}
		seen := map[[4]byte]string{}
		for i := 0; i < 400000; i++ {
			name := fmt.Sprintf("c%d-%d", p, i)
			h := sha256.Sum256(append([]byte(name), prefix[:]...))
			var k [4]byte
			copy(k[:], h[:4])
			if other, ok := seen[k]; ok {
				collisions = append(collisions, collision{prefix: prefix, a: other, b: name})
				break
			}
			seen[k] = name
		}
	}
	base := &net.TCPAddr{IP: net.IPv4(10, 9, 0, 1), Port: 1}
	want, _ := serveruser.VerifBucketIndex(base)
	sameBucket = append(sameBucket, base.IP)
	for i := 0; i < 400000 && len(sameBucket) < 6; i++ {
		ip := net.IPv4(10, byte(10+i>>16), byte(i>>8), byte(i))
		if b, ok := serveruser.VerifBucketIndex(&net.TCPAddr{IP: ip, Port: 1}); ok && b == want && !ip.Equal(base.IP) {
			sameBucket = append(sameBucket, ip)
		}
	}
}

// ---- case ----------------------------------------------------------------------

type User struct {
	Name     string `json:"name"`
	Password string `json:"password,omitempty"`
	Shared   int    `json:"shared,omitempty"` // >0: hashedPassword of shared credential #Shared instead of a password
}

type Op struct {
	Kind int `json:"k"` // 0 discover, 1 advance tick, 2 reload, 3 discover with a reload injected before the currency check
	// discover
	KeyUser  int  `json:"key,omitempty"`    // index into the union name pool: whose credential seals the segment
	HintUser int  `json:"hint,omitempty"`   // index into the pool, -1 = a hint that names nobody
	Prefix   int  `json:"prefix,omitempty"` // 0..2 collision prefixes, 3.. plain prefixes
	Source   int  `json:"src,omitempty"`
	Current  bool `json:"cur,omitempty"`
	Record   bool `json:"rec,omitempty"`
	// advance
	Ticks uint32 `json:"ticks,omitempty"`
	// reload
	Set int `json:"set,omitempty"`
}

type Case struct {
	Sets      [][]int `json:"sets"` // user sets as indices into Pool; Sets[0] is the initial set
	Pool      []User  `json:"pool"`
	Mandatory bool    `json:"mandatory,omitempty"`
	StartTick uint32  `json:"startTick"`
	Ops       []Op    `json:"ops"`
}

func sharedCredential(k int) string {
	h := sha256.Sum256([]byte(fmt.Sprintf("shared-credential-%d", k)))
	return hex.EncodeToString(h[:])
}

func genCase(t *rapid.T) Case {
	var c Case
	// name pool: colliding pairs + plain names + many fillers (for >16 users per source)
	for _, col := range collisions {
		c.Pool = append(c.Pool, User{Name: col.a}, User{Name: col.b})
	}
	nPlain := rapid.IntRange(1, 6).Draw(t, "nPlain")
	for i := 0; i < nPlain; i++ {
		name := fmt.Sprintf("user%d", i)
		// user names may be up to 64 bytes long (constant.MaxUserNameLen); the
		// hint is a hash over name || nonce[:16], so lengths around 48 (name +
		// 16 = one SHA-256 block) and the maximum are boundary values
		if L := rapid.SampledFrom([]int{0, 0, 0, 31, 32, 47, 48, 49, 55, 56, 57, 63, 64}).Draw(t, "nameLen"); L > len(name) {
			pad := "-long-name-0123456789abcdefghijklmnopqrstuvwxyzABCDEFGHIJKLMNOPQRSTUVWXYZ"
			name = (name + pad)[:L]
		}
		c.Pool = append(c.Pool, User{Name: name})
	}
	if rapid.IntRange(0, 3).Draw(t, "manyUsers") == 0 {
		for i := 0; i < 30; i++ {
			c.Pool = append(c.Pool, User{Name: fmt.Sprintf("filler%02d", i)})
		}
	}
	sharedMode := rapid.IntRange(0, 2).Draw(t, "sharedMode") == 0
	for i := range c.Pool {
		if sharedMode && rapid.IntRange(0, 2).Draw(t, "isShared") == 0 {
			c.Pool[i].Shared = rapid.IntRange(1, 2).Draw(t, "sharedGroup")
		} else {
			c.Pool[i].Password = fmt.Sprintf("pw-%d-%d", i, rapid.IntRange(0, 1).Draw(t, "pwVariant"))
		}
	}
	nSets := rapid.IntRange(1, 3).Draw(t, "nSets")
	for s := 0; s < nSets; s++ {
		var set []int
		for i := range c.Pool {
			if rapid.IntRange(0, 3).Draw(t, "member") != 0 {
				variant, form := 0, 0
				if c.Pool[i].Shared == 0 && rapid.IntRange(0, 2).Draw(t, "pwChanged") == 0 {
					variant = 1
				}
				if rapid.IntRange(0, 2).Draw(t, "hashedForm") == 0 {
					form = 1
				}
				set = append(set, member(i, variant, form))
			}
		}
		if len(set) == 0 {
			set = []int{0}
		}
		// most reloads change little: derive the set from the previous one by a
		// single edit (one user's password, one user's form, one user removed or
		// added, or nothing at all)
		if s > 0 && rapid.IntRange(0, 2).Draw(t, "derived") != 0 {
			prev := append([]int(nil), c.Sets[s-1]...)
			j := rapid.IntRange(0, len(prev)-1).Draw(t, "editAt")
			switch rapid.IntRange(0, 4).Draw(t, "edit") {
			case 0: // password changed
				if c.Pool[prev[j]%1000].Shared == 0 {
					prev[j] = member(prev[j]%1000, 1-(prev[j]/1000)%2, prev[j]/2000)
				}
			case 1: // same credential, other form
				prev[j] = member(prev[j]%1000, (prev[j]/1000)%2, 1-prev[j]/2000)
			case 2: // removed
				if len(prev) > 1 {
					prev = append(prev[:j], prev[j+1:]...)
				}
			case 3: // added
				add := rapid.IntRange(0, len(c.Pool)-1).Draw(t, "addUser")
				present := false
				for _, m := range prev {
					if m%1000 == add {
						present = true
					}
				}
				if !present {
					prev = append(prev, member(add, 0, rapid.IntRange(0, 1).Draw(t, "addForm")))
				}
			}
			if rapid.IntRange(0, 3).Draw(t, "allHashed") == 0 {
				// a stored server configuration carries hashes only
				for k := range prev {
					prev[k] = member(prev[k]%1000, (prev[k]/1000)%2, 1)
				}
				for k := range c.Sets[s-1] {
					c.Sets[s-1][k] = member(c.Sets[s-1][k]%1000, (c.Sets[s-1][k]/1000)%2, 1)
				}
			}
			set = prev
		}
		c.Sets = append(c.Sets, set)
	}
	c.Mandatory = rapid.Bool().Draw(t, "mandatory")
	c.StartTick = rapid.SampledFrom([]uint32{0, 1000, 0xffffff00, 0xfffffff0}).Draw(t, "startTick")
	n := rapid.IntRange(1, 60).Draw(t, "nOps")
	for i := 0; i < n; i++ {
		var op Op
		op.Kind = rapid.SampledFrom([]int{0, 0, 0, 0, 0, 0, 1, 2, 3}).Draw(t, "kind")
		switch op.Kind {
		case 0, 3:
			keyIdx := rapid.IntRange(0, len(c.Pool)-1).Draw(t, "keyUser")
			op.KeyUser = member(keyIdx, rapid.IntRange(0, 1).Draw(t, "keyVariant"), 0)
			switch rapid.IntRange(0, 4).Draw(t, "hintKind") {
			case 0:
				op.HintUser = -1
			case 1:
				op.HintUser = rapid.IntRange(0, len(c.Pool)-1).Draw(t, "hintUser")
			default:
				op.HintUser = keyIdx
			}
			op.Prefix = rapid.IntRange(0, 5).Draw(t, "prefix")
			op.Source = rapid.IntRange(0, 7).Draw(t, "source")
			op.Current = rapid.Bool().Draw(t, "requireCurrent")
			op.Record = rapid.IntRange(0, 3).Draw(t, "record") != 0
			if op.Kind == 3 {
				op.Set = rapid.IntRange(0, nSets-1).Draw(t, "raceSet")
			}
		case 1:
			op.Ticks = rapid.SampledFrom([]uint32{1, 10, 599, 600, 601, 1200, 100000}).Draw(t, "ticks")
		case 2:
			op.Set = rapid.IntRange(0, nSets-1).Draw(t, "set")
		}
		c.Ops = append(c.Ops, op)
	}
	return c
}

// A set member or key reference m encodes: pool index m%1000, password
// variant (m/1000)%2 (the same user with another password: what a reload that
// changes a password installs) and form m/2000 (0: given as password, 1: given
// as hashedPassword, the way a stored server configuration carries it).
func member(idx, variant, form int) int { return idx + 1000*variant + 2000*form }

func (c Case) credential(m int) []byte {
	u := c.Pool[m%1000]
	if u.Shared > 0 {
		b, _ := hex.DecodeString(sharedCredential(u.Shared))
		return b
	}
	return refproto.HashedPassword(fmt.Sprintf("%s~%d", u.Password, (m/1000)%2), u.Name)
}

func (c Case) userMap(set []int) map[string]*pb.User {
	m := map[string]*pb.User{}
	for _, mem := range set {
		u := c.Pool[mem%1000]
		pu := &pb.User{Name: proto.String(u.Name)}
		switch {
		case u.Shared > 0:
			pu.HashedPassword = proto.String(sharedCredential(u.Shared))
		case mem/2000 == 1:
			pu.HashedPassword = proto.String(hex.EncodeToString(c.credential(mem)))
		default:
			pu.Password = proto.String(fmt.Sprintf("%s~%d", u.Password, (mem/1000)%2))
		}
		m[u.Name] = pu
	}
	return m
}

func sourceAddr(i int) net.Addr {
	switch {
	case i < len(sameBucket) && i < 5:
		return &net.TCPAddr{IP: sameBucket[i], Port: 1000 + i}
	case i == 5:
		return &net.UDPAddr{IP: net.ParseIP("::ffff:10.9.0.1"), Port: 7} // IPv4-mapped form of source 0
	case i == 6:
		return &net.UDPAddr{IP: net.ParseIP("2001:db8::7"), Port: 7}
	}
	return &net.TCPAddr{IP: net.IPv4(192, 0, 2, 77), Port: 9}
}

func (c Case) prefixFor(op Op) [16]byte {
	if op.Prefix < len(collisions) {
		return collisions[op.Prefix].prefix
	}
	var p [16]byte
	for i := range p {
		p[i] = byte(op.Prefix*53 + i*7 + op.KeyUser)
	}
	return p
}

// expected computes the oracle for one discover against a user set.
func (c Case) expected(set []int, op Op, nonce []byte, mandatory bool) (accept bool, allowed map[string]bool) {
	cred := c.credential(op.KeyUser)
	allowed = map[string]bool{}
	var A, H []string
	for _, i := range set {
		if string(c.credential(i)) == string(cred) {
			A = append(A, c.Pool[i%1000].Name)
			if refproto.HintMatches(c.Pool[i%1000].Name, nonce) {
				H = append(H, c.Pool[i%1000].Name)
			}
		}
	}
	if len(A) == 0 || (mandatory && len(H) == 0) {
		return false, allowed
	}
	pick := A
	if len(H) > 0 {
		pick = H
	}
	for _, n := range pick {
		allowed[n] = true
	}
	return true, allowed
}

func prop(c Case) (o pbt.Outcome) {
	reg := &serveruser.Registry{}
	tick := c.StartTick
	tickFn := func() uint32 { return tick }
	cur := c.Sets[0]
	reg.SetUsers(c.userMap(cur))
	reg.VerifSetCacheTick(tickFn)
	reg.SetHintMandatory(c.Mandatory)
	now := time.Now()
	recorded := map[string]bool{} // source index (by IP string) that has a cache entry in this generation
	reloaded := false
	nontrivial := false
	shared := false
	for _, u := range c.Pool {
		if u.Shared > 0 {
			shared = true
		}
	}
	discovers, accepts := 0, 0

	for k, op := range c.Ops {
		switch op.Kind {
		case 1:
			tick += op.Ticks
			continue
		case 2:
			cur = c.Sets[op.Set]
			reg.SetUsers(c.userMap(cur))
			reg.VerifSetCacheTick(tickFn)
			recorded = map[string]bool{}
			reloaded = true
			continue
		}
		// build the first-segment metadata with the reference encoder
		prefix := c.prefixFor(op)
		nonce := make([]byte, 24)
		copy(nonce, prefix[:])
		for i := 16; i < 24; i++ {
			nonce[i] = byte(k*31 + i)
		}
		if op.HintUser >= 0 {
			refproto.SetUserHint(c.Pool[op.HintUser].Name, nonce)
		}
		key := refproto.KeyAt(c.credential(op.KeyUser), now.Unix())
		meta := refproto.Meta{Proto: refproto.OpenSessionRequest, Timestamp: uint32(now.Unix() / 60), SessionID: uint32(k + 1), Seq: 0}
		enc, err := refproto.EncodeDatagram(key, nonce, refproto.SegSpec{Meta: meta, FixLengths: true})
		if err != nil {
			o.Failf("harness", "encode: %v", err)
			return
		}
		enc = enc[:refproto.HeaderLen]
		src := sourceAddr(op.Source)
		source := serveruser.SourceFromAddr(src)
		srcKey := src.(interface{ String() string }).String()
		if ta, ok := src.(*net.TCPAddr); ok {
			srcKey = ta.IP.String()
		} else if ua, ok := src.(*net.UDPAddr); ok {
			ip := ua.IP
			if v4 := ip.To4(); v4 != nil {
				ip = v4
			}
			srcKey = ip.String()
		}
		collide := op.Prefix < len(collisions)
		if recorded[srcKey] || collide || shared || reloaded {
			nontrivial = true
		}
		discovers++

		oldSet := cur
		var gotUser string
		var gotErr error
		var auth serveruser.Authentication
		if op.Kind == 3 {
			injected := false
			newSet := c.Sets[op.Set]
			block, _, a, err := reg.VerifDiscoverAfterAttempt(enc, source, op.Current, func() {
				if !injected {
					injected = true
					reg.SetUsers(c.userMap(newSet))
					reg.VerifSetCacheTick(tickFn)
				}
			})
			cur = newSet
			recorded = map[string]bool{}
			reloaded = true
			auth, gotErr = a, err
			if err == nil {
				gotUser = block.BlockContext().UserName
			}
		} else {
			block, _, a, err := reg.Discover(enc, source, op.Current)
			auth, gotErr = a, err
			if err == nil {
				gotUser = block.BlockContext().UserName
			}
		}
		// oracle
		type verdict struct {
			accept  bool
			allowed map[string]bool
		}
		var ok []verdict
		acc, al := c.expected(cur, op, nonce, c.Mandatory)
		ok = append(ok, verdict{acc, al})
		if op.Kind == 3 && !op.Current {
			// without requireCurrent the result may come from the generation that
			// was current when discovery started
			acc0, al0 := c.expected(oldSet, op, nonce, c.Mandatory)
			ok = append(ok, verdict{acc0, al0})
		}
		good := false
		for _, v := range ok {
			if v.accept == (gotErr == nil) && (gotErr != nil || v.allowed[gotUser]) {
				good = true
			}
		}
		if !good {
			sig := "attribution"
			if op.Kind == 3 {
				sig = "reload-race"
			}
			var names []string
			for n := range ok[0].allowed {
				names = append(names, n)
			}
			sort.Strings(names)
			o.Failf(sig, "op %d: segment sealed with the credential of %q, hint of %v, source %v, mandatory=%v: got user=%q err=%v; oracle: accept=%v user in %v",
				k, c.Pool[op.KeyUser%1000].Name, op.HintUser, src, c.Mandatory, gotUser, gotErr, ok[0].accept, names)
			return
		}
		if gotErr == nil {
			accepts++
			if auth.Policy().Name() != gotUser {
				o.Failf("policy", "op %d: block context user %q but policy of %q", k, gotUser, auth.Policy().Name())
				return
			}
			// differential: a cold registry with the same users and no cache
			if !shared && op.Kind == 0 {
				cold := &serveruser.Registry{}
				cold.SetUsers(c.userMap(cur))
				cold.SetHintMandatory(c.Mandatory)
				cb, _, _, cerr := cold.Discover(enc, serveruser.Source{}, false)
				if cerr != nil || cb.BlockContext().UserName != gotUser {
					o.Failf("cache-dependence", "op %d: warm registry says %q, a cold registry with the same users says %v (err %v)", k, gotUser, cb, cerr)
					return
				}
			}
			if op.Record {
				auth.Record()
				recorded[srcKey] = true
			}
		} else if !shared && op.Kind == 0 {
			cold := &serveruser.Registry{}
			cold.SetUsers(c.userMap(cur))
			cold.SetHintMandatory(c.Mandatory)
			if _, _, _, cerr := cold.Discover(enc, serveruser.Source{}, false); cerr == nil {
				o.Failf("cache-dependence", "op %d: warm registry rejects what a cold registry with the same users accepts", k)
				return
			}
		}
	}
	o.NonTrivial = nontrivial && discovers > 0
	o.Label("mandatory=%v", c.Mandatory)
	o.Label("shared=%v", shared)
	o.Label("reloaded=%v", reloaded)
	o.Label("accepts>0=%v", accepts > 0)
	o.Label("users>16=%v", len(c.Pool) > 16)
	return
}

func TestC07(t *testing.T) {
	pbt.Run(t, "C07", "discover", genCase, prop)
}
