//go:build verif

package c07

import (
	"testing"

	"verif/harness/pbt"
)

func FuzzC07Discover(f *testing.F) { pbt.Fuzz(f, "C07", "discover", genCase, prop) }
