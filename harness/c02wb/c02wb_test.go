//go:build verif

// C02 (white-box part): the server's input goroutine is held right after the
// payload of an open session request became readable (hook VerifPointFunc),
// which is the moment at which a server application that answers at once used
// to get a full window of data in front of the open session response. The
// harness owns this schedule; on an unloaded machine it happens once in many
// thousand sessions, on a loaded one once in a few thousand.
package c02wb

import (
	"fmt"
	"testing"
	"time"

	"github.com/enfein/mieru/v3/pkg/protocol"
	"pgregory.net/rapid"

	"verif/harness/e2e"
	"verif/harness/pbt"
	"verif/harness/simnet"
)

type Case struct {
	UDP       bool   `json:"udp,omitempty"`
	NoWait    bool   `json:"noWait,omitempty"`
	RawClient bool   `json:"rawClient,omitempty"`
	HoldMs    int    `json:"holdMs"` // how long the server's input goroutine is held at the point
	Sessions  int    `json:"sessions"`
	Down      []int  `json:"down"` // what the server application writes as soon as it has the request
	Up        []int  `json:"up"`
	Salt      uint64 `json:"salt"`
}

func gen(t *rapid.T) Case {
	c := Case{
		UDP:      rapid.IntRange(0, 3).Draw(t, "udp") != 0,
		NoWait:   rapid.Bool().Draw(t, "noWait"),
		HoldMs:   rapid.SampledFrom([]int{1, 5, 20, 50}).Draw(t, "holdMs"),
		Sessions: rapid.IntRange(1, 3).Draw(t, "sessions"),
		Salt:     rapid.Uint64().Draw(t, "salt"),
	}
	if rapid.IntRange(0, 2).Draw(t, "rawClient") == 0 {
		c.RawClient, c.NoWait = true, true
	}
	for i := rapid.IntRange(1, 4).Draw(t, "nDown"); i > 0; i-- {
		c.Down = append(c.Down, rapid.SampledFrom([]int{1, 1400, 20000, 32768, 65536}).Draw(t, "down"))
	}
	for i := rapid.IntRange(0, 2).Draw(t, "nUp"); i > 0; i-- {
		c.Up = append(c.Up, rapid.SampledFrom([]int{1, 500, 1400, 20000}).Draw(t, "up"))
	}
	if c.NoWait && len(c.Up) == 0 {
		c.Up = []int{1}
	}
	return c
}

func prop(c Case) (o pbt.Outcome) {
	hold := time.Duration(c.HoldMs) * time.Millisecond
	f := func(name string, isClient bool) {
		if name == "open-request-payload-readable" && !isClient {
			time.Sleep(hold)
		}
	}
	protocol.VerifPointFunc.Store(&f)
	defer protocol.VerifPointFunc.Store(nil)

	cfg := e2e.Config{UDP: c.UDP, NoWait: c.NoWait, RawClient: c.RawClient, Multiplex: 1}
	env, err := e2e.Start(cfg, simnet.NewStreamNet(simnet.StreamOpts{}), simnet.NewPacketNet())
	if err != nil {
		o.Failf("start", "start: %v", err)
		return
	}
	defer env.StopBounded(3 * time.Second)
	var progs []e2e.SessProg
	var total int
	for i := 0; i < c.Sessions; i++ {
		progs = append(progs, e2e.SessProg{Up: e2e.DirProg{Writes: c.Up}, Down: e2e.DirProg{Writes: c.Down}})
	}
	for _, d := range c.Down {
		total += d
	}
	res := e2e.RunTransfer(env, progs, e2e.TransferOpts{Salt: c.Salt, StallAfter: 15 * time.Second, MaxWall: 60 * time.Second})
	o.Label("udp=%v", c.UDP)
	o.Label("hold=%dms", c.HoldMs)
	o.Label("firstWindowFilled=%v", total >= 16*1300)
	o.NonTrivial = c.UDP && total >= 16*1300
	for i, s := range res.Sessions {
		for d, dr := range []e2e.DirResult{s.Up, s.Down} {
			name := []string{"client->server", "server->client"}[d]
			if dr.Mismatch != "" || dr.Extra != "" {
				o.Failf("data", "session %d %s: %s%s", i, name, dr.Mismatch, dr.Extra)
				return
			}
		}
		if s.OpenErr != "" || !s.Up.DoneReading || !s.Down.DoneReading {
			sig := "incomplete"
			if res.Stalled {
				sig = "stall/server-answers-at-once"
			}
			o.Failf(sig, "with the server's input goroutine held %v after the open request's payload became readable and the application answering at once with %d bytes, session %d did not complete (stalled=%v): %+v", hold, total, i, res.Stalled, s)
			return
		}
	}
	return
}

func TestC02OpenRace(t *testing.T) {
	pbt.Run(t, "C02", "openrace", gen, prop)
}

var _ = fmt.Sprintf
