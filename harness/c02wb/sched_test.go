//go:build verif

// C02 / C13 (white-box, schedules): the UDP fault-plan runs of C02 with a
// generated *delay plan* on top: chosen calls of Session.input (hook
// VerifPointFunc, point "session-input") at the client or at the server are
// held for a few milliseconds. Holding a goroutine only selects one of the
// schedules the Go runtime may produce anyway (a descheduled input loop while
// acknowledgements, retransmission timers and application writes go on), so
// both oracles stay exactly those of the black-box sub-checks: the stream
// model with its progress rule (C02) and the wire monitor (C13).
package c02wb

import (
	"sync"
	"testing"
	"time"

	"github.com/enfein/mieru/v3/pkg/protocol"
	"pgregory.net/rapid"

	"verif/harness/pbt"
	"verif/harness/udprun"
	"verif/harness/wiremon"
)

type Delay struct {
	Client bool `json:"client,omitempty"` // which side's input goroutine
	Call   int  `json:"call"`             // the n-th call of Session.input on that side (0-based)
	Every  int  `json:"every,omitempty"`  // >0: also every Every-th call after it
	Ms     int  `json:"ms"`
}

type SchedCase struct {
	Run    udprun.Case `json:"run"`
	Delays []Delay     `json:"delays"`
}

func genSched(t *rapid.T) SchedCase {
	c := SchedCase{Run: udprun.Gen(t)}
	n := rapid.IntRange(1, 6).Draw(t, "nDelays")
	for i := 0; i < n; i++ {
		d := Delay{
			Client: rapid.Bool().Draw(t, "client"),
			Call:   rapid.SampledFrom([]int{0, 0, 1, 2, 3, 5, 8, 16, 17, 40}).Draw(t, "call"),
			Ms:     rapid.SampledFrom([]int{1, 3, 10, 30, 80}).Draw(t, "ms"),
		}
		if rapid.IntRange(0, 3).Draw(t, "periodic") == 0 {
			d.Every = rapid.SampledFrom([]int{2, 7, 16}).Draw(t, "every")
			if d.Ms > 10 {
				d.Ms = 10
			}
		}
		c.Delays = append(c.Delays, d)
	}
	return c
}

func runSched(c SchedCase) (*udprun.Result, int) {
	var mu sync.Mutex
	calls := map[bool]int{}
	fired := 0
	f := func(name string, isClient bool) {
		if name != "session-input" {
			return
		}
		mu.Lock()
		k := calls[isClient]
		calls[isClient]++
		var sleep time.Duration
		for _, d := range c.Delays {
			if d.Client == isClient && (k == d.Call || (d.Every > 0 && k > d.Call && (k-d.Call)%d.Every == 0)) {
				sleep += time.Duration(d.Ms) * time.Millisecond
			}
		}
		if sleep > 0 {
			fired++
		}
		mu.Unlock()
		if sleep > 0 {
			time.Sleep(sleep)
		}
	}
	protocol.VerifPointFunc.Store(&f)
	defer protocol.VerifPointFunc.Store(nil)
	maxWall := 100 * time.Second
	if c.Run.Heavy {
		maxWall = 300 * time.Second
	}
	res := udprun.Run(c.Run, udprun.RunOpts{StallAfter: 45 * time.Second, MaxWall: maxWall, TailCheck: 20 * time.Millisecond})
	mu.Lock()
	defer mu.Unlock()
	return res, fired
}

func propSchedStream(c SchedCase) (o pbt.Outcome) {
	res, fired := runSched(c)
	o = udprun.Verdict(c.Run, res)
	o.Label("delaysFired>0=%v", fired > 0)
	o.NonTrivial = o.NonTrivial && fired > 0
	return
}

func propSchedWire(c SchedCase) (o pbt.Outcome) {
	res, fired := runSched(c)
	if res.StartErr != "" {
		o.Failf("start", "valid configuration did not start: %s", res.StartErr)
		return
	}
	sig, msg, st := wiremon.Check(res.Events, res.Datagrams)
	if sig != "" {
		o.Failf(sig, "%s", msg)
		o.Obs = res.Describe()
		return
	}
	o.NonTrivial = (st.Retrans > 0 || st.GapAcks > 0) && fired > 0
	o.Label("delaysFired>0=%v", fired > 0)
	o.Label("retrans>0=%v", st.Retrans > 0)
	o.Label("gapAcks>0=%v", st.GapAcks > 0)
	return
}

func TestC02Sched(t *testing.T) { pbt.Run(t, "C02", "sched", genSched, propSchedStream) }
func TestC13Sched(t *testing.T) { pbt.Run(t, "C13", "sched", genSched, propSchedWire) }
