package c12

import (
	"testing"

	"verif/harness/pbt"
)

func FuzzC12Decision(f *testing.F) { pbt.Fuzz(f, "C12", "decision", genCase, prop) }
