// C12 — loopback and private destinations are refused unless the user is
// allowed; egress rules apply to the rest, first match wins.
// (a) decision level: (*socks5.Server).FindAction on encoded requests.
// (b) end to end (e2e_test.go): ServeConn with real listeners.
// See DESIGN.md section 3.12.
package c12

import (
	"context"
	"fmt"
	"net"
	"net/netip"
	"strings"
	"testing"

	pb "github.com/enfein/mieru/v3/pkg/appctl/appctlpb"
	"github.com/enfein/mieru/v3/pkg/egress"
	"github.com/enfein/mieru/v3/pkg/socks5"
	"google.golang.org/protobuf/proto"
	"pgregory.net/rapid"

	"verif/harness/pbt"
)

// Dest is a SOCKS5 destination as it appears on the wire.
type Dest struct {
	ATYP byte   `json:"atyp"`           // 1 IPv4, 3 domain, 4 IPv6
	IP   string `json:"ip,omitempty"`   // textual form of the 4 / 16 raw bytes
	Name string `json:"name,omitempty"` // domain name bytes
	Port int    `json:"port"`
}

func (d Dest) raw() []byte {
	var b []byte
	switch d.ATYP {
	case 1:
		a := netip.MustParseAddr(d.IP).As4()
		b = append([]byte{1}, a[:]...)
	case 4:
		a := netip.MustParseAddr(d.IP).As16()
		b = append([]byte{4}, a[:]...)
	default:
		b = append([]byte{3, byte(len(d.Name))}, d.Name...)
	}
	return append(b, byte(d.Port>>8), byte(d.Port))
}

type Rule struct {
	IPRanges []string `json:"ipRanges,omitempty"`
	Domains  []string `json:"domains,omitempty"`
	Action   int      `json:"action"` // 0 PROXY, 1 DIRECT, 2 REJECT
	Proxy    string   `json:"proxy,omitempty"`
}

type Case struct {
	Cmd   byte   `json:"cmd"`
	Dst   Dest   `json:"dst"`
	User  string `json:"user"` // "", "ghost" (unregistered), "plain", "loop", "priv", "both"
	Rules []Rule `json:"rules,omitempty"`
	// Rsv is the request's reserved octet. RFC 1928 says 0; mieru's request
	// reader does not look at it (and the client forwards it verbatim), so a
	// request with another value is served like any other
	Rsv byte `json:"rsv,omitempty"`
}

var localNames = []string{"localhost", "localhost4", "localhost.localdomain", "localhost4.localdomain4", "localhost6", "ip6-localhost", "ip6-loopback", "localhost6.localdomain6"}

var v4Boundary = []string{
	"127.0.0.0", "127.0.0.1", "127.255.255.255", "126.255.255.255", "128.0.0.0", "127.1.2.3",
	"10.0.0.0", "10.255.255.255", "9.255.255.255", "11.0.0.0", "10.1.2.3",
	"172.16.0.0", "172.31.255.255", "172.15.255.255", "172.32.0.0", "172.20.1.1",
	"192.168.0.0", "192.168.255.255", "192.167.255.255", "192.169.0.0", "192.168.1.1",
	"0.0.0.0", "8.8.8.8", "93.184.216.34", "1.1.1.1", "203.0.113.9", "100.64.0.1", "169.254.1.1", "255.255.255.255",
}

var v6Boundary = []string{
	"::1", "::", "::2", "fc00::", "fdff:ffff:ffff:ffff:ffff:ffff:ffff:ffff", "fbff:ffff:ffff:ffff:ffff:ffff:ffff:ffff", "fe00::", "fd00::2", "fc00::1",
	"2001:db8::1", "2606:4700:4700::1111", "fe80::1", "ff02::1", "64:ff9b::7f00:1",
}

func randomCase(t *rapid.T, name string) string {
	b := []byte(name)
	for i := range b {
		if b[i] >= 'a' && b[i] <= 'z' && rapid.Bool().Draw(t, "upper") {
			b[i] -= 32
		}
	}
	return string(b)
}

func genDest(t *rapid.T) Dest {
	d := Dest{Port: rapid.SampledFrom([]int{0, 53, 80, 443, 65535}).Draw(t, "port")}
	switch rapid.IntRange(0, 9).Draw(t, "dstKind") {
	case 0, 1, 2:
		d.ATYP = 1
		d.IP = rapid.SampledFrom(v4Boundary).Draw(t, "v4")
	case 3, 4:
		d.ATYP = 4
		d.IP = rapid.SampledFrom(v6Boundary).Draw(t, "v6")
	case 5:
		// IPv4-mapped IPv6 form of an IPv4 address
		d.ATYP = 4
		d.IP = "::ffff:" + rapid.SampledFrom(v4Boundary).Draw(t, "mapped")
	case 6:
		d.ATYP = 3
		d.Name = randomCase(t, rapid.SampledFrom(localNames).Draw(t, "local"))
	case 7:
		d.ATYP = 3
		d.Name = rapid.SampledFrom([]string{"", "example.com", "www.example.com", "notlocalhost", "localhost.example.com", "xlocalhost", "a.b.c.example.org", "example.org"}).Draw(t, "name")
	case 8:
		d.ATYP = 1
		v := rapid.Uint32().Draw(t, "v4rand")
		d.IP = netip.AddrFrom4([4]byte{byte(v >> 24), byte(v >> 16), byte(v >> 8), byte(v)}).String()
	default:
		d.ATYP = 3
		d.Name = ""
	}
	return d
}

func genRules(t *rapid.T) []Rule {
	n := rapid.IntRange(0, 4).Draw(t, "nRules")
	var rs []Rule
	for i := 0; i < n; i++ {
		var r Rule
		k := rapid.IntRange(0, 2).Draw(t, "nRanges")
		for j := 0; j < k; j++ {
			r.IPRanges = append(r.IPRanges, rapid.SampledFrom([]string{"*", "0.0.0.0/0", "8.8.8.0/24", "93.184.216.34/32", "10.0.0.0/8", "127.0.0.0/8", "128.0.0.0/1", "2001:db8::/32", "::/0", "1.1.1.1/32", "bogus"}).Draw(t, "range"))
		}
		k = rapid.IntRange(0, 2).Draw(t, "nDomains")
		for j := 0; j < k; j++ {
			r.Domains = append(r.Domains, rapid.SampledFrom([]string{"*", "example.com", "com", "example.org", "b.c.example.org", "localhost"}).Draw(t, "domain"))
		}
		r.Action = rapid.IntRange(0, 2).Draw(t, "action")
		if r.Action == 0 {
			r.Proxy = rapid.SampledFrom([]string{"p1", "p2", "missing"}).Draw(t, "proxy")
		}
		rs = append(rs, r)
	}
	return rs
}

func genCase(t *rapid.T) Case {
	return Case{
		Cmd:   rapid.SampledFrom([]byte{1, 1, 1, 3, 3, 2, 9}).Draw(t, "cmd"),
		Dst:   genDest(t),
		User:  rapid.SampledFrom([]string{"", "ghost", "plain", "plain", "loop", "priv", "both"}).Draw(t, "user"),
		Rules: genRules(t),
		Rsv:   rapid.SampledFrom([]byte{0, 0, 0, 0, 0, 1, 5, 0x80, 0xff}).Draw(t, "rsv"),
	}
}

// ---- reference classifier, written from the property statement -------------

const (
	classPublic = iota
	classLoopback
	classPrivate
)

func classify(d Dest) (class int, nonCanonical bool) {
	if d.ATYP == 3 {
		if d.Name == "" {
			return classLoopback, true // empty host
		}
		for _, n := range localNames {
			if strings.EqualFold(d.Name, n) {
				return classLoopback, d.Name != n
			}
		}
		return classPublic, false
	}
	a := netip.MustParseAddr(d.IP)
	mapped := a.Is4In6()
	a = a.Unmap()
	switch {
	case a.IsUnspecified():
		return classLoopback, true // unspecified host
	case a.IsLoopback():
		return classLoopback, mapped
	case a.IsPrivate():
		return classPrivate, mapped
	}
	return classPublic, false
}

var users = map[string]*pb.User{
	"plain": {Name: proto.String("plain"), Password: proto.String("x")},
	"loop":  {Name: proto.String("loop"), Password: proto.String("x"), AllowLoopbackIP: proto.Bool(true)},
	"priv":  {Name: proto.String("priv"), Password: proto.String("x"), AllowPrivateIP: proto.Bool(true)},
	"both":  {Name: proto.String("both"), Password: proto.String("x"), AllowLoopbackIP: proto.Bool(true), AllowPrivateIP: proto.Bool(true)},
}

func allowed(user string, class int) bool {
	switch class {
	case classLoopback:
		return user == "loop" || user == "both"
	case classPrivate:
		return user == "priv" || user == "both"
	}
	return true
}

// refRuleMatch: documented first-match evaluation of one rule.
func refRuleMatch(d Dest, r Rule) bool {
	if d.ATYP != 3 {
		a := netip.MustParseAddr(d.IP).Unmap()
		for _, rg := range r.IPRanges {
			if rg == "*" {
				return true
			}
			p, err := netip.ParsePrefix(rg)
			if err != nil {
				continue
			}
			if p.Contains(a) {
				return true
			}
		}
		return false
	}
	if d.Name == "" {
		return false
	}
	for _, dn := range r.Domains {
		if dn == "*" || d.Name == dn || strings.HasSuffix(d.Name, "."+dn) {
			return true
		}
	}
	return false
}

func buildEgress(rules []Rule) *pb.Egress {
	e := &pb.Egress{
		Proxies: []*pb.EgressProxy{
			{Name: proto.String("p1"), Protocol: pb.ProxyProtocol_SOCKS5_PROXY_PROTOCOL.Enum(), Host: proto.String("192.0.2.10"), Port: proto.Int32(1080)},
			{Name: proto.String("p2"), Protocol: pb.ProxyProtocol_SOCKS5_PROXY_PROTOCOL.Enum(), Host: proto.String("192.0.2.11"), Port: proto.Int32(1080)},
		},
	}
	for _, r := range rules {
		er := &pb.EgressRule{IpRanges: r.IPRanges, DomainNames: r.Domains, Action: pb.EgressAction(r.Action).Enum()}
		if r.Proxy != "" {
			er.ProxyNames = []string{r.Proxy}
		}
		e.Rules = append(e.Rules, er)
	}
	return e
}

func sigFor(c Case, class int) string {
	form := "canonical"
	switch {
	case c.Dst.ATYP == 3 && c.Dst.Name == "":
		form = "empty-host"
	case c.Dst.ATYP == 3:
		form = "local-name-case"
	default:
		a := netip.MustParseAddr(c.Dst.IP)
		if a.Unmap().IsUnspecified() {
			form = "unspecified-ip"
		} else if a.Is4In6() {
			form = "mapped-ip"
		}
	}
	cmd := "connect"
	if c.Cmd == 3 {
		cmd = "associate"
	}
	return fmt.Sprintf("%s/%s", cmd, form)
}

func prop(c Case) (o pbt.Outcome) {
	srv, err := socks5.New(&socks5.Config{Users: users, Egress: buildEgress(c.Rules)})
	if err != nil {
		o.Failf("harness", "socks5.New: %v", err)
		return
	}
	raw := append([]byte{5, c.Cmd, c.Rsv}, c.Dst.raw()...)
	in := egress.Input{Protocol: pb.ProxyProtocol_SOCKS5_PROXY_PROTOCOL, Data: raw}
	if c.User != "" {
		in.Env = map[string]string{"user": c.User}
	}
	got := srv.FindAction(context.Background(), in)
	class, nonCanon := classify(c.Dst)
	overlap := 0
	for _, r := range c.Rules {
		if refRuleMatch(c.Dst, r) {
			overlap++
		}
	}
	o.NonTrivial = (class != classPublic && nonCanon) || overlap >= 2
	o.Label("class=%d", class)
	o.Label("cmd=%d", c.Cmd)
	o.Label("rsv!=0=%v", c.Rsv != 0)
	o.Label("nonCanonical=%v", nonCanon)
	o.Label("matchingRules=%d", overlap)
	o.Obs = map[string]any{"action": got.Action.String(), "class": class}

	if c.Cmd != 1 && c.Cmd != 3 {
		return // the property speaks about CONNECT and UDP ASSOCIATE
	}
	if class != classPublic && !allowed(c.User, class) {
		// RFC 1928 clients send "UDP ASSOCIATE 0.0.0.0:0" (or an empty host):
		// that request names the client's own source, it opens no connection to
		// the unspecified address, so only the observable half is asserted for
		// it (e2e check), not the reply.
		if c.Cmd == 3 && (sigFor(c, class) == "associate/unspecified-ip" || sigFor(c, class) == "associate/empty-host") {
			o.Label("associate-unspecified(not asserted)")
			return
		}
		if got.Action != pb.EgressAction_REJECT {
			o.Failf(sigFor(c, class), "user %q without the needed grant: %s to %v (class %d) decided %s, want REJECT", c.User, map[byte]string{1: "CONNECT", 3: "UDP ASSOCIATE"}[c.Cmd], c.Dst, class, got.Action)
		}
		return
	}
	// allowed or public: first matching rule decides, default DIRECT
	want := pb.EgressAction_DIRECT
	wantProxy := ""
	for _, r := range c.Rules {
		if refRuleMatch(c.Dst, r) {
			want = pb.EgressAction(r.Action)
			if r.Action == 0 && r.Proxy != "missing" {
				wantProxy = r.Proxy
			}
			break
		}
	}
	if got.Action != want {
		o.Failf("rules", "destination %v user %q rules %+v: decided %s, first matching rule says %s", c.Dst, c.User, c.Rules, got.Action, want)
		return
	}
	if want == pb.EgressAction_PROXY && wantProxy != "" && got.Proxy.GetName() != wantProxy {
		o.Failf("rules", "destination %v: proxy %q selected, rule names %q", c.Dst, got.Proxy.GetName(), wantProxy)
	}
	return
}

func TestC12Decision(t *testing.T) {
	pbt.Run(t, "C12", "decision", genCase, prop)
}

var _ = net.IPv4
