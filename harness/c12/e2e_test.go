package c12

import (
	"context"
	"fmt"
	"os"
	"io"
	"net"
	"sync"
	"sync/atomic"
	"testing"
	"time"

	apicommon "github.com/enfein/mieru/v3/apis/common"
	pb "github.com/enfein/mieru/v3/pkg/appctl/appctlpb"
	"github.com/enfein/mieru/v3/pkg/socks5"
	"pgregory.net/rapid"

	"verif/harness/pbt"
	"verif/harness/refproto"
	"verif/harness/simnet"
)

// (b) end to end: requests are served by socks5.Server.ServeConn in the server
// role on a connection that carries a user name; harness listeners on
// 127.0.0.1, ::1, the host's private address (when it has one) and the host's
// public address observe what the server really connects or sends to.

type userConn struct {
	net.Conn
	user string
}

func (u *userConn) UserName() string { return u.user }

var _ apicommon.UserContext = (*userConn)(nil)

type sink struct {
	name  string
	class int
	ip    net.IP
	tcp   net.Listener
	udp   *net.UDPConn
	conns atomic.Int64
	dgs   atomic.Int64
	mu    sync.Mutex
	seen  map[string]bool // payloads of the datagrams that arrived
}

// got reports whether a datagram with this payload has arrived: cases share
// the listeners, and a datagram of an earlier case that arrives late must not
// be taken for one of the current case.
func (s *sink) got(token string) bool {
	s.mu.Lock()
	defer s.mu.Unlock()
	return s.seen[token]
}

var (
	sinksOnce sync.Once
	sinks     []*sink
	probeSeq  atomic.Int64
)

// hostAddrs finds a private and a public (non-loopback, non-private) address of this host.
func hostAddrs() (private, public net.IP) {
	addrs, _ := net.InterfaceAddrs()
	for _, a := range addrs {
		ipn, ok := a.(*net.IPNet)
		if !ok || ipn.IP.IsLoopback() || ipn.IP.IsLinkLocalUnicast() {
			continue
		}
		if ipn.IP.IsPrivate() && private == nil {
			private = ipn.IP
		} else if !ipn.IP.IsPrivate() && public == nil {
			public = ipn.IP
		}
	}
	return
}

func startSinks() {
	sinksOnce.Do(func() {
		priv, pub := hostAddrs()
		cands := []struct {
			name  string
			class int
			ip    net.IP
		}{{"loopback4", classLoopback, net.IPv4(127, 0, 0, 1)}, {"loopback6", classLoopback, net.ParseIP("::1")}, {"private", classPrivate, priv}, {"public", classPublic, pub}}
		for _, c := range cands {
			if c.ip == nil {
				continue
			}
			network, unet := "tcp4", "udp4"
			if c.ip.To4() == nil {
				network, unet = "tcp6", "udp6"
			}
			l, err := net.Listen(network, net.JoinHostPort(c.ip.String(), "0"))
			if err != nil {
				continue
			}
			port := l.Addr().(*net.TCPAddr).Port
			u, err := net.ListenUDP(unet, &net.UDPAddr{IP: c.ip, Port: port})
			if err != nil {
				u, _ = net.ListenUDP(unet, &net.UDPAddr{IP: c.ip})
			}
			s := &sink{name: c.name, class: c.class, ip: c.ip, tcp: l, udp: u}
			sinks = append(sinks, s)
			go func() {
				for {
					conn, err := l.Accept()
					if err != nil {
						return
					}
					s.conns.Add(1)
					conn.Close()
				}
			}()
			if u != nil {
				go func() {
					buf := make([]byte, 2048)
					for {
						n, _, err := u.ReadFromUDP(buf)
						if err != nil {
							return
						}
						s.mu.Lock()
						if s.seen == nil {
							s.seen = map[string]bool{}
						}
						if len(s.seen) > 100000 {
							s.seen = map[string]bool{}
						}
						s.seen[string(buf[:n])] = true
						s.mu.Unlock()
						s.dgs.Add(1)
					}
				}()
			}
		}
	})
}

type E2ECase struct {
	Sink    int    `json:"sink"` // index into the available sinks
	Form    int    `json:"form"` // 0 canonical literal, 1 IPv4-mapped IPv6 (IPv4 sinks), 2 unspecified address with the sink's port, 3 empty host, 4 local name in random case (loopback sinks)
	Name    string `json:"name,omitempty"`
	UDP     bool   `json:"udp,omitempty"` // UDP ASSOCIATE + relayed datagram instead of CONNECT
	User    string `json:"user"`
	AssocDS bool   `json:"assocDst,omitempty"` // UDP: the ASSOCIATE request itself names the destination (else 0.0.0.0:0)
	Dgram   bool   `json:"dgram,omitempty"`    // UDP: the server relays in RFC 1928 datagram mode instead of packet-over-stream
	Knock   bool   `json:"knock,omitempty"`    // UDP: the destination speaks first (sends a datagram to the relay port) before the client names it
	Again   int    `json:"again,omitempty"`    // UDP: the client's datagram is sent 1+Again times
	Rsv     byte   `json:"rsv,omitempty"`      // reserved octet of the request (see Case.Rsv)
}

func genE2E(t *rapid.T) E2ECase {
	return E2ECase{
		Sink:    rapid.IntRange(0, 7).Draw(t, "sink"),
		Form:    rapid.IntRange(0, 4).Draw(t, "form"),
		Name:    randomCase(t, rapid.SampledFrom(localNames[:4]).Draw(t, "lname")),
		UDP:     rapid.Bool().Draw(t, "udp"),
		User:    rapid.SampledFrom([]string{"", "ghost", "plain", "plain", "loop", "priv", "both"}).Draw(t, "user"),
		AssocDS: rapid.Bool().Draw(t, "assocDst"),
		Dgram:   rapid.Bool().Draw(t, "dgram"),
		Knock:   rapid.Bool().Draw(t, "knock"),
		Again:   rapid.IntRange(0, 2).Draw(t, "again"),
		Rsv:     rapid.SampledFrom([]byte{0, 0, 0, 0, 1, 0xff}).Draw(t, "rsv"),
	}
}

func propE2E(c E2ECase) (o pbt.Outcome) {
	startSinks()
	if len(sinks) == 0 {
		o.Inconclusive = "no local listeners could be created"
		return
	}
	s := sinks[c.Sink%len(sinks)]
	port := s.tcp.Addr().(*net.TCPAddr).Port
	if c.UDP && s.udp != nil {
		port = s.udp.LocalAddr().(*net.UDPAddr).Port
	}
	// destination encoding
	var d Dest
	form := c.Form
	v4 := s.ip.To4() != nil
	switch {
	case form == 1 && v4:
		d = Dest{ATYP: 4, IP: "::ffff:" + s.ip.String(), Port: port}
	case form == 2 && s.class == classLoopback:
		if v4 {
			d = Dest{ATYP: 1, IP: "0.0.0.0", Port: port}
		} else {
			d = Dest{ATYP: 4, IP: "::", Port: port}
		}
	case form == 3 && s.class == classLoopback && v4 && !c.UDP:
		d = Dest{ATYP: 3, Name: "", Port: port}
	case form == 4 && s.class == classLoopback && v4:
		d = Dest{ATYP: 3, Name: c.Name, Port: port}
	default:
		form = 0
		if v4 {
			d = Dest{ATYP: 1, IP: s.ip.String(), Port: port}
		} else {
			d = Dest{ATYP: 4, IP: s.ip.String(), Port: port}
		}
	}
	class := s.class
	mayReach := class == classPublic || allowed(c.User, class)
	o.Label("sink=%s", s.name)
	o.Label("form=%d", form)
	o.Label("udp=%v", c.UDP)
	o.Label("mayReach=%v", mayReach)
	o.NonTrivial = form != 0 || class == classPrivate

	mode := socks5.UDPAssociateModePacketOverStream
	if c.UDP && c.Dgram {
		mode = socks5.UDPAssociateModeDatagram
	}
	if c.UDP {
		o.Label("dgram=%v", c.Dgram)
		o.Label("knock=%v", c.Knock)
	}
	srv, err := socks5.New(&socks5.Config{Users: users, HandshakeTimeout: 2 * time.Second, AuthOpts: socks5.Auth{ClientSideAuthentication: true},
		Resolver: localResolver{}, UDPAssociateMode: mode})
	if err != nil {
		o.Failf("harness", "socks5.New: %v", err)
		return
	}
	sn := simnet.NewStreamNet(simnet.StreamOpts{})
	ln, _ := sn.Listen(context.Background(), "tcp", "10.0.0.1:1080")
	defer ln.Close()
	serveDone := make(chan struct{})
	go func() {
		defer close(serveDone)
		conn, err := ln.Accept()
		if err != nil {
			return
		}
		var uc net.Conn = conn
		if c.User != "" {
			uc = &userConn{Conn: conn, user: c.User}
		} else {
			uc = &userConn{Conn: conn}
		}
		srv.ServeConn(uc)
	}()
	conn, err := sn.DialContext(context.Background(), "tcp", "10.0.0.1:1080")
	if err != nil {
		o.Failf("harness", "dial: %v", err)
		return
	}
	defer conn.Close()
	conns0 := s.conns.Load()
	readReply := func() ([]byte, error) {
		conn.SetReadDeadline(time.Now().Add(5 * time.Second))
		head := make([]byte, 4)
		if _, err := io.ReadFull(conn, head); err != nil {
			return nil, err
		}
		n := 6
		switch head[3] {
		case 4:
			n = 18
		case 3:
			l := make([]byte, 1)
			io.ReadFull(conn, l)
			n = int(l[0]) + 2
		}
		rest := make([]byte, n)
		io.ReadFull(conn, rest)
		return append(head, rest...), nil
	}
	if !c.UDP {
		conn.Write(append([]byte{5, 1, c.Rsv}, d.raw()...))
		rep, rerr := readReply()
		time.Sleep(15 * time.Millisecond)
		if mayReach {
			// the listener counts a connection when its Accept returns: poll,
			// a loaded machine may need more than a few milliseconds
			for end := time.Now().Add(3 * time.Second); s.conns.Load() == conns0 && time.Now().Before(end); {
				time.Sleep(2 * time.Millisecond)
			}
		}
		reached := s.conns.Load() > conns0
		if !mayReach {
			if reached {
				o.Failf(fmt.Sprintf("connect/form-%d", form), "user %q has no grant for class %d, yet CONNECT to %+v opened a connection to the local listener %s", c.User, class, d, s.name)
				return
			}
			if rerr != nil || rep[1] != 2 {
				o.Failf(fmt.Sprintf("connect-reply/form-%d", form), "user %q without grant: CONNECT to %+v answered %v (err %v), want reply code 02 'not allowed by ruleset'", c.User, d, rep, rerr)
				return
			}
		} else if !reached || rerr != nil || rep[1] != 0 {
			o.Failf("wrongly-refused", "user %q may reach %s (class %d) but CONNECT to %+v was not served: reply %v err %v reached=%v", c.User, s.name, class, d, rep, rerr, reached)
			return
		}
		return
	}
	// UDP ASSOCIATE, then one datagram through the tunnel whose header names the destination
	assoc := Dest{ATYP: 1, IP: "0.0.0.0", Port: 0}
	if c.AssocDS {
		assoc = d
	}
	conn.Write(append([]byte{5, 3, c.Rsv}, assoc.raw()...))
	rep, rerr := readReply()
	if rerr != nil || rep[1] != 0 {
		// the association itself was refused: nothing can be relayed
		if mayReach && !c.AssocDS {
			o.Failf("wrongly-refused", "UDP ASSOCIATE 0.0.0.0:0 of user %q was refused: %v %v", c.User, rep, rerr)
		}
		// (nothing was sent in this case: a datagram arriving at the shared
		// listener now can only belong to an earlier case)
		return
	}
	relayPort := int(rep[len(rep)-2])<<8 | int(rep[len(rep)-1])
	relayAddr := &net.UDPAddr{IP: s.ip, Port: relayPort}
	if c.Knock && s.udp != nil {
		// the destination speaks first: the relay learns its address from an
		// inbound datagram before the client ever names it
		s.udp.WriteToUDP([]byte("knock"), relayAddr)
		if !c.Dgram {
			// packet-over-stream: the knock is forwarded to the client; wait for it
			conn.SetReadDeadline(time.Now().Add(500 * time.Millisecond))
			hdr := make([]byte, 3)
			if _, err := io.ReadFull(conn, hdr); err == nil {
				io.ReadFull(conn, make([]byte, (int(hdr[1])<<8|int(hdr[2]))+1))
			}
			conn.SetReadDeadline(time.Time{})
		} else {
			time.Sleep(20 * time.Millisecond)
		}
	}
	token := fmt.Sprintf("probe-%d-%d", os.Getpid(), probeSeq.Add(1))
	dg := append(append([]byte{0, 0, 0}, d.raw()...), []byte(token)...)
	var cliUDP *net.UDPConn
	if c.Dgram {
		// RFC 1928 mode: the client sends the datagram to the relay port itself
		lip := net.IPv4(127, 0, 0, 1)
		netw := "udp4"
		to := &net.UDPAddr{IP: lip, Port: relayPort}
		if !v4 {
			lip, netw = net.ParseIP("::1"), "udp6"
			to = &net.UDPAddr{IP: lip, Port: relayPort}
		}
		cliUDP, err = net.ListenUDP(netw, &net.UDPAddr{IP: lip})
		if err != nil {
			o.Inconclusive = "no client UDP socket: " + err.Error()
			return
		}
		defer cliUDP.Close()
		for i := 0; i <= c.Again; i++ {
			cliUDP.WriteToUDP(dg, to)
		}
	} else {
		for i := 0; i <= c.Again; i++ {
			conn.Write(refproto.FrameUDPAssociate(dg))
		}
	}
	time.Sleep(40 * time.Millisecond)
	if mayReach {
		for end := time.Now().Add(time.Second); !s.got(token) && time.Now().Before(end); {
			time.Sleep(2 * time.Millisecond)
		}
	}
	got := s.got(token)
	if !mayReach && got {
		o.Failf(fmt.Sprintf("udp-relay/form-%d", form), "user %q has no grant for class %d, yet a datagram relayed through its UDP association reached the local listener %s (header %+v)", c.User, class, s.name, d)
		return
	}
	if mayReach && !got && s.udp != nil && form == 0 {
		o.Inconclusive = fmt.Sprintf("datagram to %s did not arrive", s.name)
	}
	return
}

// localResolver resolves the well-known local names without the network.
type localResolver struct{}

func (localResolver) LookupIP(ctx context.Context, network, host string) ([]net.IP, error) {
	for _, n := range localNames {
		if equalFold(host, n) {
			return []net.IP{net.IPv4(127, 0, 0, 1)}, nil
		}
	}
	return nil, fmt.Errorf("no such host %q", host)
}

func equalFold(a, b string) bool {
	if len(a) != len(b) {
		return false
	}
	for i := 0; i < len(a); i++ {
		x, y := a[i], b[i]
		if x >= 'A' && x <= 'Z' {
			x += 32
		}
		if y >= 'A' && y <= 'Z' {
			y += 32
		}
		if x != y {
			return false
		}
	}
	return true
}

func TestC12E2E(t *testing.T) {
	pbt.Run(t, "C12", "e2e", genE2E, propE2E)
}

var _ = pb.EgressAction_DIRECT
