// C02 — UDP transport: reliable, ordered, exactly-once stream over a faulty
// network; progress under fair fault plans. See DESIGN.md section 3.2.
package c02

import (
	"testing"
	"time"

	"verif/harness/pbt"
	"verif/harness/udprun"
)

func prop(c udprun.Case) (o pbt.Outcome) {
	maxWall := 100 * time.Second
	if c.Heavy {
		maxWall = 300 * time.Second
	}
	res := udprun.Run(c, udprun.RunOpts{StallAfter: 45 * time.Second, MaxWall: maxWall, TailCheck: 20 * time.Millisecond})
	return udprun.Verdict(c, res)
}

func TestC02(t *testing.T) {
	pbt.Run(t, "C02", "transfer", udprun.Gen, prop)
}
