package c09

import (
	"bytes"
	"fmt"
	"io"
	"net"
	"testing"
	"time"

	"pgregory.net/rapid"

	"verif/harness/e2e"
	"verif/harness/pbt"
	"verif/harness/refproto"
	"verif/harness/simnet"
)

// Direction 2: a reference client built only from docs/protocol.md talks to a
// real server. Everything it sends is within the documented limits; the real
// server application must read exactly the reference's payload and the
// reference must decode the answers.

type RefSeg struct {
	Len      int    `json:"len"`  // payload bytes
	Pad1     int    `json:"pad1"` // 0..255
	Pad2     int    `json:"pad2"` // 0..255
	LE       bool   `json:"le,omitempty"`
	Mode     uint8  `json:"mode,omitempty"`
	MaskBits []int  `json:"maskBits,omitempty"` // positions of the 1-bits of the half mask
	Rot      uint8  `json:"rot,omitempty"`
	PadBit   uint8  `json:"padBit,omitempty"`
	Frag     uint8  `json:"frag,omitempty"`
	Window   uint16 `json:"win,omitempty"`
	// Ack: an acknowledgement segment (type 8, no payload, no sequence number
	// consumed) with the given paddings instead of a data segment. The
	// document allows it on either transport.
	Ack bool `json:"ack,omitempty"`
}

type AcceptCase struct {
	UDP        bool            `json:"udp,omitempty"`
	Users      []e2e.UserSpec  `json:"users"`
	User       int             `json:"user"`
	SessionID  uint32          `json:"sid"`
	Nonce      []byte          `json:"nonce"`   // 24 bytes, hint applied by the reference
	OpenLen    int             `json:"openLen"` // data piggybacked on the open request (after the SOCKS request)
	OpenPad    int             `json:"openPad"`
	Segs       []RefSeg        `json:"segs"`
	Down       []int           `json:"down"` // sizes the server application writes
	ServerPat  e2e.PatternSpec `json:"serverPattern"`
	ClosePad   int             `json:"closePad"`
	Salt       uint64          `json:"salt"`
	SlotOffset int             `json:"slotOffset,omitempty"` // -1,0,+1: key derived for the adjacent slot is NOT used here (C08's subject)
	// Carry > 0 (TCP): the reference chooses its first nonce so that the last
	// eight bytes are within 1024 increments of ff..ff (bytes 16..19 = ff and a
	// user hint >= 0xfffffc00, found by searching bytes 12..15) and sends that
	// many one-byte data segments first: the per-encryption increment of the
	// 24-byte big-endian nonce has to carry into byte 15 on the way
	Carry int `json:"carry,omitempty"`
}

func genMaskBits(t *rapid.T, ones int) []int {
	// choose `ones` distinct positions among 32 by drawing a permutation prefix
	pos := rapid.Permutation([]int{0, 1, 2, 3, 4, 5, 6, 7, 8, 9, 10, 11, 12, 13, 14, 15, 16, 17, 18, 19, 20, 21, 22, 23, 24, 25, 26, 27, 28, 29, 30, 31}).Draw(t, "maskPerm")
	return append([]int(nil), pos[:ones]...)
}

func maskFromBits(bitsPos []int) uint32 {
	var m uint32
	for _, p := range bitsPos {
		m |= 1 << uint(p)
	}
	return m
}

func genAccept(t *rapid.T) AcceptCase {
	var c AcceptCase
	c.UDP = rapid.Bool().Draw(t, "udp")
	nu := rapid.IntRange(1, len(userPool)).Draw(t, "nUsers")
	c.Users = append([]e2e.UserSpec(nil), userPool[:nu]...)
	c.User = rapid.IntRange(0, nu-1).Draw(t, "user")
	c.SessionID = rapid.Uint32Range(1, 0xffffffff).Draw(t, "sid")
	c.Nonce = rapid.SliceOfN(rapid.Byte(), 24, 24).Draw(t, "nonce")
	c.Salt = rapid.Uint64().Draw(t, "salt")
	reqLen := e2e.Socks5RequestLen(0)
	c.OpenLen = rapid.SampledFrom([]int{0, 0, 1, 100, 1024 - reqLen - 1, 1024 - reqLen}).Draw(t, "openLen")
	c.OpenPad = rapid.SampledFrom([]int{0, 1, 17, 200, 255}).Draw(t, "openPad")
	c.ClosePad = rapid.SampledFrom([]int{0, 1, 255}).Draw(t, "closePad")
	c.ServerPat = e2e.GenPattern(t, "sp", 0)
	n := rapid.IntRange(0, 6).Draw(t, "nSegs")
	for i := 0; i < n; i++ {
		var s RefSeg
		s.Pad1 = rapid.SampledFrom([]int{0, 0, 1, 7, 128, 255}).Draw(t, "pad1")
		s.Pad2 = rapid.SampledFrom([]int{0, 0, 1, 7, 128, 255}).Draw(t, "pad2")
		s.LE = rapid.IntRange(0, 2).Draw(t, "le") == 0
		if s.LE {
			s.Mode = uint8(rapid.IntRange(1, 4).Draw(t, "mode"))
			s.MaskBits = genMaskBits(t, refproto.LESourceBytes(s.Mode)*4)
			s.Rot = uint8(rapid.SampledFrom(e2e.ValidRotations).Draw(t, "rot"))
			s.PadBit = uint8(rapid.IntRange(0, 1).Draw(t, "padBit"))
		}
		s.Frag = uint8(rapid.SampledFrom([]int{0, 0, 0, 1, 5}).Draw(t, "frag"))
		s.Window = uint16(rapid.SampledFrom([]int{16, 256, 4096, 65535}).Draw(t, "win"))
		if c.UDP {
			// must fit one datagram that any endpoint reads (1500 bytes): the
			// document ties the fragment size to the MTU.
			budget := 1500 - refproto.HeaderLen - refproto.TagLen - s.Pad1 - s.Pad2
			maxLen := budget
			if s.LE {
				cb := refproto.LESourceBytes(s.Mode)
				maxLen = budget / 8 * cb
			}
			if maxLen < 1 {
				s.Pad1, s.Pad2 = 0, 0
				maxLen = 100
			}
			s.Len = rapid.SampledFrom([]int{1, 2, 5, 7, 100, maxLen - 1, maxLen}).Draw(t, "len")
			if s.Len < 1 {
				s.Len = 1
			}
			if s.Len > maxLen {
				s.Len = maxLen
			}
		} else {
			maxLen := 32768
			if s.LE && s.Mode == 1 {
				maxLen = 32764
			}
			s.Len = rapid.SampledFrom([]int{1, 3, 4, 5, 6, 7, 8, 1000, 4099, maxLen - 1, maxLen}).Draw(t, "len")
		}
		if rapid.IntRange(0, 4).Draw(t, "ack") == 0 {
			s.Ack, s.LE, s.Len = true, false, 0
		}
		c.Segs = append(c.Segs, s)
	}
	if !c.UDP && rapid.IntRange(0, 11).Draw(t, "carry") == 0 {
		c.Carry = 530
	}
	nd := rapid.IntRange(0, 3).Draw(t, "nDown")
	for i := 0; i < nd; i++ {
		c.Down = append(c.Down, rapid.SampledFrom([]int{1, 10, 1024, 1400, 5000}).Draw(t, "down"))
	}
	return c
}

func padding(n int, salt uint64) []byte {
	p := make([]byte, n)
	e2e.PRFFill(salt^0xabcdef, 0, p)
	return p
}

func propAccept(c AcceptCase) (o pbt.Outcome) {
	cfg := e2e.Config{UDP: c.UDP, Users: c.Users, ServerPattern: c.ServerPat}
	sn := simnet.NewStreamNet(simnet.StreamOpts{})
	pn := simnet.NewPacketNet()
	env, err := e2e.StartServer(cfg, sn, pn)
	if err != nil {
		o.Failf("start", "valid server configuration did not start: %v", err)
		return
	}
	defer env.StopBounded(3 * time.Second)
	u := c.Users[c.User]
	hp := refproto.HashedPassword(u.Password, u.Name)
	now := time.Now()
	key := refproto.KeyAt(hp, now.Unix())
	keys := refproto.KeysAround(hp, now.Unix())
	nonce := e2e.UniqueNonce(c.Nonce)
	refproto.SetUserHint(u.Name, nonce)
	if c.Carry > 0 && !c.UDP {
		nonce[16], nonce[17], nonce[18], nonce[19] = 0xff, 0xff, 0xff, 0xff
		found := false
		for x := uint32(0); x < 1<<27; x++ {
			nonce[12], nonce[13], nonce[14], nonce[15] = byte(x>>24), byte(x>>16), byte(x>>8), byte(x)
			if h := refproto.UserHint(u.Name, nonce); h[0] == 0xff && h[1] == 0xff && h[2] >= 0xfc {
				copy(nonce[20:], h)
				found = true
				break
			}
		}
		if !found {
			o.Inconclusive = "no nonce with a high user hint found"
			return
		}
		tiny := make([]RefSeg, c.Carry)
		for i := range tiny {
			tiny[i] = RefSeg{Len: 1, Window: 4096}
		}
		c.Segs = append(tiny, c.Segs...)
		o.Label("nonceCarry")
	}
	minute := func() uint32 { return uint32(time.Now().Unix() / 60) }

	// what the reference client sends as application bytes
	upKey := e2e.StreamKey(c.Salt, 0, 0)
	downKey := e2e.StreamKey(c.Salt, 0, 1)
	var upTotal int64
	openData := make([]byte, c.OpenLen)
	e2e.PRFFill(upKey, 0, openData)
	upTotal = int64(c.OpenLen)
	openPayload := append(e2eRequestBytes(0), openData...)

	le := false
	nonZeroPad := c.OpenPad > 0
	for _, s := range c.Segs {
		if s.LE {
			le = true
		}
		if s.Pad1 > 0 || s.Pad2 > 0 {
			nonZeroPad = true
		}
	}
	o.NonTrivial = le || nonZeroPad
	o.Label("udp=%v", c.UDP)
	o.Label("le=%v", le)
	o.Label("segs=%d", len(c.Segs))
	for _, s := range c.Segs {
		if s.Ack {
			o.Label("paddedAck=%v", s.Pad1 > 0 || s.Pad2 > 0)
			if s.Pad1 > 0 || s.Pad2 > 0 {
				o.NonTrivial = true
			}
		}
	}

	buildData := func(i int, s RefSeg, seq uint32, unack uint32) refproto.SegSpec {
		if s.Ack {
			m := refproto.Meta{Proto: refproto.AckClientToServer, Timestamp: minute(), SessionID: c.SessionID, Seq: seq, UnAck: unack, Window: s.Window}
			return refproto.SegSpec{Meta: m, Pad1: padding(s.Pad1, c.Salt+uint64(i)), Pad2: padding(s.Pad2, c.Salt+uint64(i)+77), FixLengths: true}
		}
		payload := make([]byte, s.Len)
		e2e.PRFFill(upKey, upTotal, payload)
		upTotal += int64(s.Len)
		m := refproto.Meta{Proto: refproto.DataClientToServer, Timestamp: minute(), SessionID: c.SessionID, Seq: seq, UnAck: unack, Window: s.Window, Fragment: s.Frag}
		if s.LE {
			m.Proto = refproto.DataClientToServerLE
			m.Byte1 = s.Mode
			m.LEMask = maskFromBits(s.MaskBits)
			m.LERot = s.Rot
		}
		return refproto.SegSpec{Meta: m, Payload: payload, Pad1: padding(s.Pad1, c.Salt+uint64(i)), Pad2: padding(s.Pad2, c.Salt+uint64(i)+77), LEPadBit: s.PadBit, FixLengths: true}
	}

	var downTotal int64
	for _, d := range c.Down {
		downTotal += int64(d)
	}
	wantDown := append([]byte{5, 0, 0, 1, 0, 0, 0, 0, 0, 0}, func() []byte { b := make([]byte, downTotal); e2e.PRFFill(downKey, 0, b); return b }()...)

	// server application: reads everything the reference sends, then writes Down
	type appResult struct {
		read []byte
		err  error
		eof  bool
	}
	appDone := make(chan appResult, 1)
	expectUp := func() int64 {
		t := int64(c.OpenLen)
		for _, s := range c.Segs {
			t += int64(s.Len)
		}
		return t
	}()
	go func() {
		sc, err := env.ServerSide(0, 15*time.Second)
		if err != nil {
			appDone <- appResult{err: err}
			return
		}
		var r appResult
		buf := make([]byte, expectUp)
		sc.Conn.SetReadDeadline(time.Now().Add(20 * time.Second))
		n, err := io.ReadFull(sc.Conn, buf)
		r.read = buf[:n]
		if err != nil {
			r.err = fmt.Errorf("server application read %d of %d bytes: %w", n, expectUp, err)
			appDone <- r
			return
		}
		off := int64(0)
		for _, d := range c.Down {
			p := make([]byte, d)
			e2e.PRFFill(downKey, off, p)
			off += int64(d)
			if _, err := sc.Conn.Write(p); err != nil {
				r.err = fmt.Errorf("server application write: %w", err)
				appDone <- r
				return
			}
		}
		// after the reference closes, the application must see end-of-stream
		sc.Conn.SetReadDeadline(time.Now().Add(20 * time.Second))
		var one [1]byte
		k, err := sc.Conn.Read(one[:])
		if k == 0 && err == io.EOF {
			r.eof = true
		} else {
			r.err = fmt.Errorf("after close request: server application Read returned n=%d err=%v, want EOF", k, err)
		}
		appDone <- r
	}()

	open := refproto.SegSpec{Meta: refproto.Meta{Proto: refproto.OpenSessionRequest, Timestamp: minute(), SessionID: c.SessionID, Seq: 0}, Payload: openPayload, Pad2: padding(c.OpenPad, c.Salt+9), FixLengths: true}
	var gotDown []byte
	var sawOpenResp, sawCloseResp bool
	fail := func(sig, format string, a ...any) pbt.Outcome {
		o.Failf(sig, format, a...)
		return o
	}

	if !c.UDP {
		conn, err := sn.DialContext(nil, "tcp", "10.0.0.1:7000")
		if err != nil {
			return fail("dial", "dial: %v", err)
		}
		defer conn.Close()
		enc := refproto.NewStreamEncoder(key, nonce)
		b, _ := enc.Encode(open)
		conn.Write(b)
		seq := uint32(1)
		for i, s := range c.Segs {
			spec := buildData(i, s, seq, 0)
			b, err := enc.Encode(spec)
			if err != nil {
				return fail("harness", "reference encoder: %v", err)
			}
			if _, err := conn.Write(b); err != nil {
				return fail("accept", "server closed the connection while the reference was sending well-formed segment %d: %v", i, err)
			}
			if !s.Ack {
				seq++
			}
		}
		// read the server's direction until SOCKS response + Down bytes arrived
		dec := refproto.NewStreamDecoder(keys)
		var rbuf []byte
		readSeg := func(deadline time.Time) (*refproto.Segment, error) {
			for {
				seg, n, err := dec.Next(rbuf)
				if err == nil {
					rbuf = rbuf[n:]
					return seg, nil
				}
				if err != refproto.ErrNeedMore {
					return nil, err
				}
				conn.SetReadDeadline(deadline)
				tmp := make([]byte, 65536)
				k, rerr := conn.Read(tmp)
				rbuf = append(rbuf, tmp[:k]...)
				if rerr != nil && k == 0 {
					return nil, rerr
				}
			}
		}
		deadline := time.Now().Add(20 * time.Second)
		for len(gotDown) < len(wantDown) {
			seg, err := readSeg(deadline)
			if err != nil {
				return fail("accept", "reference could not decode the server's answer after %d of %d payload bytes: %v", len(gotDown), len(wantDown), err)
			}
			if seg.Meta.Proto == refproto.OpenSessionResponse {
				sawOpenResp = true
			}
			if seg.Meta.SessionID != c.SessionID {
				return fail("accept", "server answered with session id %d, want %d", seg.Meta.SessionID, c.SessionID)
			}
			gotDown = append(gotDown, seg.Payload...)
		}
		// close
		closeReq := refproto.SegSpec{Meta: refproto.Meta{Proto: refproto.CloseSessionRequest, Timestamp: minute(), SessionID: c.SessionID, Seq: seq}, Pad2: padding(c.ClosePad, c.Salt+5), FixLengths: true}
		b, _ = enc.Encode(closeReq)
		conn.Write(b)
		for !sawCloseResp {
			seg, err := readSeg(time.Now().Add(10 * time.Second))
			if err != nil {
				break
			}
			if seg.Meta.Proto == refproto.CloseSessionResponse || seg.Meta.Proto == refproto.CloseSessionRequest {
				sawCloseResp = true
			}
		}
	} else {
		sock, err := pn.Bind(net.IPv4(10, 0, 0, 9), 0)
		if err != nil {
			return fail("harness", "bind: %v", err)
		}
		defer sock.Close()
		srv := &net.UDPAddr{IP: net.IPv4(10, 0, 0, 1), Port: 7000}
		ncount := uint64(0)
		freshNonce := func() []byte {
			n := make([]byte, 24)
			e2e.PRFFill(c.Salt^0x5a5a, int64(ncount)*24, n)
			ncount++
			n = e2e.UniqueNonce(n)
			refproto.SetUserHint(u.Name, n)
			return n
		}
		send := func(spec refproto.SegSpec, n []byte) error {
			b, err := refproto.EncodeDatagram(key, n, spec)
			if err != nil {
				return err
			}
			if len(b) > 1500 {
				return fmt.Errorf("harness built a %d-byte datagram", len(b))
			}
			_, err = sock.WriteTo(b, srv)
			return err
		}
		nextRecv := uint32(0) // next server sequence number expected
		pending := map[uint32]*refproto.Segment{}
		recvOne := func(deadline time.Time) (*refproto.Segment, error) {
			sock.SetReadDeadline(deadline)
			buf := make([]byte, 2000)
			n, _, err := sock.ReadFrom(buf)
			if err != nil {
				return nil, err
			}
			return refproto.DecodeDatagram(buf[:n], keys)
		}
		ack := func() {
			m := refproto.Meta{Proto: refproto.AckClientToServer, Timestamp: minute(), SessionID: c.SessionID, Seq: 0, UnAck: nextRecv, Window: 4096}
			send(refproto.SegSpec{Meta: m, FixLengths: true}, freshNonce())
		}
		// pump processes datagrams from the server until cond() or deadline.
		pump := func(cond func() bool, deadline time.Time) error {
			for !cond() {
				seg, err := recvOne(deadline)
				if err != nil {
					return err
				}
				if seg.Meta.SessionID != c.SessionID {
					return fmt.Errorf("server answered with session id %d, want %d", seg.Meta.SessionID, c.SessionID)
				}
				switch {
				case seg.Meta.Proto == refproto.OpenSessionResponse || refproto.IsData(seg.Meta.Proto):
					if seg.Meta.Seq >= nextRecv {
						pending[seg.Meta.Seq] = seg
					}
					for {
						s, ok := pending[nextRecv]
						if !ok {
							break
						}
						delete(pending, nextRecv)
						if s.Meta.Proto == refproto.OpenSessionResponse {
							sawOpenResp = true
						}
						gotDown = append(gotDown, s.Payload...)
						nextRecv++
					}
					ack()
				case seg.Meta.Proto == refproto.CloseSessionResponse || seg.Meta.Proto == refproto.CloseSessionRequest:
					sawCloseResp = true
				}
			}
			return nil
		}
		// first datagram uses the case's nonce (with hint)
		if err := send(open, nonce); err != nil {
			return fail("harness", "send: %v", err)
		}
		if err := pump(func() bool { return sawOpenResp }, time.Now().Add(10*time.Second)); err != nil {
			return fail("accept", "no decodable open session response from the server: %v", err)
		}
		seq := uint32(1)
		for i, s := range c.Segs {
			spec := buildData(i, s, seq, nextRecv)
			if err := send(spec, freshNonce()); err != nil {
				return fail("harness", "send: %v", err)
			}
			if !s.Ack {
				seq++
			}
		}
		if err := pump(func() bool { return len(gotDown) >= len(wantDown) }, time.Now().Add(20*time.Second)); err != nil {
			return fail("accept", "reference received %d of %d payload bytes from the server: %v", len(gotDown), len(wantDown), err)
		}
		closeReq := refproto.SegSpec{Meta: refproto.Meta{Proto: refproto.CloseSessionRequest, Timestamp: minute(), SessionID: c.SessionID, Seq: seq}, Pad2: padding(c.ClosePad, c.Salt+5), FixLengths: true}
		send(closeReq, freshNonce())
		pump(func() bool { return sawCloseResp }, time.Now().Add(5*time.Second))
	}

	if !bytes.Equal(gotDown, wantDown) {
		return fail("payload", "reference decoded %d payload bytes from the server, application wrote %d; contents differ", len(gotDown), len(wantDown))
	}
	if !sawOpenResp {
		return fail("accept", "no openSessionResponse seen")
	}
	r := <-appDone
	want := make([]byte, expectUp)
	e2e.PRFFill(upKey, 0, want)
	if !bytes.Equal(r.read, want[:len(r.read)]) {
		return fail("payload", "server application read bytes that differ from what the reference client sent")
	}
	if r.err != nil {
		return fail("accept", "%v", r.err)
	}
	if !sawCloseResp {
		return fail("accept", "no closeSessionResponse to the reference's closeSessionRequest")
	}
	return o
}

func TestC09Accept(t *testing.T) {
	pbt.Run(t, "C09", "accept", genAccept, propAccept)
}
