package c09

import (
	"bytes"
	"context"
	"fmt"
	"io"
	"net"
	"testing"
	"time"

	"pgregory.net/rapid"

	"verif/harness/e2e"
	"verif/harness/pbt"
	"verif/harness/refproto"
	"verif/harness/simnet"
)

// Direction 2, other half: a reference SERVER written from docs/protocol.md
// answers a real client. Everything it sends is within the documented limits
// (padding 0..255 on either side of the payload, plain or low-entropy bodies
// with any valid half mask / rotation / mode / padding polarity, padded
// acknowledgements, the SOCKS5 response inside the open session response or
// in a data segment); the real client's application must read exactly the
// reference's payload and the reference must decode what the client sends.

type ServeCase struct {
	UDP       bool            `json:"udp,omitempty"`
	NoWait    bool            `json:"noWait,omitempty"`
	ClientPat e2e.PatternSpec `json:"clientPattern"`
	RespPad   int             `json:"respPad"`
	RespCarry bool            `json:"respCarry,omitempty"` // the SOCKS5 response rides in the open session response
	Segs      []RefSeg        `json:"segs"`                // what the reference server sends after the handshake
	Up        []int           `json:"up"`                  // what the client application writes
	ClosePad  int             `json:"closePad"`
	Salt      uint64          `json:"salt"`
}

func genServe(t *rapid.T) ServeCase {
	var c ServeCase
	c.UDP = rapid.Bool().Draw(t, "udp")
	c.NoWait = rapid.Bool().Draw(t, "noWait")
	c.ClientPat = e2e.GenPattern(t, "cp", 0)
	c.RespPad = rapid.SampledFrom([]int{0, 1, 17, 200, 255}).Draw(t, "respPad")
	c.RespCarry = rapid.Bool().Draw(t, "respCarry")
	c.ClosePad = rapid.SampledFrom([]int{0, 1, 255}).Draw(t, "closePad")
	c.Salt = rapid.Uint64().Draw(t, "salt")
	n := rapid.IntRange(1, 6).Draw(t, "nSegs")
	for i := 0; i < n; i++ {
		var s RefSeg
		s.Pad1 = rapid.SampledFrom([]int{0, 0, 1, 7, 128, 255}).Draw(t, "pad1")
		s.Pad2 = rapid.SampledFrom([]int{0, 0, 1, 7, 128, 255}).Draw(t, "pad2")
		s.LE = rapid.IntRange(0, 2).Draw(t, "le") == 0
		if s.LE {
			s.Mode = uint8(rapid.IntRange(1, 4).Draw(t, "mode"))
			s.MaskBits = genMaskBits(t, refproto.LESourceBytes(s.Mode)*4)
			s.Rot = uint8(rapid.SampledFrom(e2e.ValidRotations).Draw(t, "rot"))
			s.PadBit = uint8(rapid.IntRange(0, 1).Draw(t, "padBit"))
		}
		s.Window = uint16(rapid.SampledFrom([]int{16, 256, 4096, 65535}).Draw(t, "win"))
		maxLen := 32768
		if c.UDP {
			budget := 1400 - refproto.HeaderLen - refproto.TagLen - s.Pad1 - s.Pad2
			maxLen = budget
			if s.LE {
				maxLen = budget / 8 * refproto.LESourceBytes(s.Mode)
			}
			if maxLen < 1 {
				s.Pad1, s.Pad2, maxLen = 0, 0, 100
			}
		} else if s.LE && s.Mode == 1 {
			maxLen = 32764
		}
		s.Len = rapid.SampledFrom([]int{1, 2, 5, 7, 100, 1000, maxLen - 1, maxLen}).Draw(t, "len")
		if s.Len > maxLen {
			s.Len = maxLen
		}
		if s.Len < 1 {
			s.Len = 1
		}
		if rapid.IntRange(0, 5).Draw(t, "ack") == 0 {
			s.Ack, s.LE, s.Len = true, false, 0
		}
		c.Segs = append(c.Segs, s)
	}
	for i := rapid.IntRange(0, 3).Draw(t, "nUp"); i > 0; i-- {
		c.Up = append(c.Up, rapid.SampledFrom([]int{1, 100, 1024, 5000}).Draw(t, "up"))
	}
	if c.NoWait && len(c.Up) == 0 {
		c.Up = []int{1}
	}
	return c
}

func propServe(c ServeCase) (o pbt.Outcome) {
	u := e2e.DefaultUsers[0]
	hp := refproto.HashedPassword(u.Password, u.Name)
	keys := refproto.KeysAround(hp, time.Now().Unix())
	minute := func() uint32 { return uint32(time.Now().Unix() / 60) }
	sn := simnet.NewStreamNet(simnet.StreamOpts{})
	pn := simnet.NewPacketNet()
	env := &e2e.Env{Cfg: e2e.Config{UDP: c.UDP, NoWait: c.NoWait, ClientPattern: c.ClientPat}, SNet: sn, PNet: pn}
	socksResp := []byte{5, 0, 0, 1, 0, 0, 0, 0, 0, 0}
	reqLen := e2e.Socks5RequestLen(0)
	upKey, downKey := e2e.StreamKey(c.Salt, 0, 0), e2e.StreamKey(c.Salt, 0, 1)
	var expectUp, downTotal int64
	for _, n := range c.Up {
		expectUp += int64(n)
	}
	le, padded := false, c.RespPad > 0
	for _, s := range c.Segs {
		downTotal += int64(s.Len)
		le = le || s.LE
		padded = padded || s.Pad1 > 0 || s.Pad2 > 0
	}
	o.NonTrivial = le || padded || c.RespCarry
	o.Label("udp=%v", c.UDP)
	o.Label("le=%v", le)
	o.Label("respCarry=%v", c.RespCarry)

	// server-side segment specs in sending order
	var downOff int64
	buildDown := func(i int, s RefSeg, sid, seq, unack uint32) refproto.SegSpec {
		if s.Ack {
			m := refproto.Meta{Proto: refproto.AckServerToClient, Timestamp: minute(), SessionID: sid, Seq: seq, UnAck: unack, Window: s.Window}
			return refproto.SegSpec{Meta: m, Pad1: padding(s.Pad1, c.Salt+uint64(i)), Pad2: padding(s.Pad2, c.Salt+uint64(i)+77), FixLengths: true}
		}
		payload := make([]byte, s.Len)
		e2e.PRFFill(downKey, downOff, payload)
		downOff += int64(s.Len)
		m := refproto.Meta{Proto: refproto.DataServerToClient, Timestamp: minute(), SessionID: sid, Seq: seq, UnAck: unack, Window: s.Window}
		if s.LE {
			m.Proto, m.Byte1, m.LEMask, m.LERot = refproto.DataServerToClientLE, s.Mode, maskFromBits(s.MaskBits), s.Rot
		}
		return refproto.SegSpec{Meta: m, Payload: payload, Pad1: padding(s.Pad1, c.Salt+uint64(i)), Pad2: padding(s.Pad2, c.Salt+uint64(i)+77), LEPadBit: s.PadBit, FixLengths: true}
	}

	type srvResult struct {
		up        []byte // application bytes the client sent (after the SOCKS5 request)
		req       []byte
		err       error
		sawClose  bool
		clientSeg int
	}
	srvDone := make(chan srvResult, 1)
	nonceCount := 0
	freshNonce := func() []byte {
		n := make([]byte, 24)
		e2e.PRFFill(c.Salt^0x3c3c, int64(nonceCount)*24, n)
		nonceCount++
		return e2e.UniqueNonce(n)
	}

	if !c.UDP {
		ln, err := sn.Listen(context.Background(), "tcp", "10.0.0.1:7000")
		if err != nil {
			o.Failf("harness", "listen: %v", err)
			return
		}
		defer ln.Close()
		go func() {
			var r srvResult
			defer func() { srvDone <- r }()
			conn, err := ln.Accept()
			if err != nil {
				r.err = err
				return
			}
			defer conn.Close()
			dec := refproto.NewStreamDecoder(keys)
			var buf, stream []byte
			var first *refproto.Segment
			_ = first
			readSeg := func(deadline time.Time) (*refproto.Segment, error) {
				for {
					seg, n, derr := dec.Next(buf)
					if derr == nil {
						buf = buf[n:]
						return seg, nil
					}
					if derr != refproto.ErrNeedMore {
						return nil, fmt.Errorf("reference cannot decode the client's stream: %w", derr)
					}
					tmp := make([]byte, 65536)
					conn.SetReadDeadline(deadline)
					k, rerr := conn.Read(tmp)
					buf = append(buf, tmp[:k]...)
					if rerr != nil && k == 0 {
						return nil, rerr
					}
				}
			}
			// the open session request (it may carry the SOCKS5 request already)
			seg, err := readSeg(time.Now().Add(10 * time.Second))
			if err != nil {
				r.err = fmt.Errorf("no open session request: %w", err)
				return
			}
			first = seg
			r.clientSeg++
			stream = append(stream, seg.Payload...)
			sid := first.Meta.SessionID
			enc := refproto.NewStreamEncoder(keys[first.KeySlot], freshNonce())
			resp := refproto.SegSpec{Meta: refproto.Meta{Proto: refproto.OpenSessionResponse, Timestamp: minute(), SessionID: sid, Seq: 0}, Pad2: padding(c.RespPad, c.Salt+9), FixLengths: true}
			seq := uint32(1)
			carried := c.RespCarry && len(stream) >= reqLen
			if carried {
				resp.Payload = socksResp
			}
			b, _ := enc.Encode(resp)
			conn.Write(b)
			for len(stream) < reqLen {
				seg, err := readSeg(time.Now().Add(10 * time.Second))
				if err != nil {
					r.err = fmt.Errorf("before the request was complete: %w", err)
					return
				}
				r.clientSeg++
				stream = append(stream, seg.Payload...)
			}
			if !carried {
				b, _ = enc.Encode(refproto.SegSpec{Meta: refproto.Meta{Proto: refproto.DataServerToClient, Timestamp: minute(), SessionID: sid, Seq: seq}, Payload: socksResp, FixLengths: true})
				conn.Write(b)
				seq++
			}
			for i, s := range c.Segs {
				spec := buildDown(i, s, sid, seq, 0)
				b, err := enc.Encode(spec)
				if err != nil {
					r.err = fmt.Errorf("harness: reference encoder: %w", err)
					return
				}
				if _, err := conn.Write(b); err != nil {
					r.err = fmt.Errorf("the client closed the connection while the reference was sending well-formed segment %d: %w", i, err)
					return
				}
				if !s.Ack {
					seq++
				}
			}
			for int64(len(stream)) < int64(reqLen)+expectUp {
				seg, err := readSeg(time.Now().Add(15 * time.Second))
				if err != nil {
					r.err = fmt.Errorf("after %d of %d upstream bytes: %w", len(stream)-reqLen, expectUp, err)
					r.req, r.up = stream[:reqLen], stream[reqLen:]
					return
				}
				r.clientSeg++
				stream = append(stream, seg.Payload...)
			}
			r.req, r.up = stream[:reqLen], stream[reqLen:]
			b, _ = enc.Encode(refproto.SegSpec{Meta: refproto.Meta{Proto: refproto.CloseSessionRequest, Timestamp: minute(), SessionID: sid, Seq: seq}, Pad2: padding(c.ClosePad, c.Salt+5), FixLengths: true})
			conn.Write(b)
			for !r.sawClose {
				seg, err := readSeg(time.Now().Add(5 * time.Second))
				if err != nil {
					break
				}
				if seg.Meta.Proto == refproto.CloseSessionResponse || seg.Meta.Proto == refproto.CloseSessionRequest {
					r.sawClose = true
				}
			}
		}()
	} else {
		sock, err := pn.Bind(net.IPv4(10, 0, 0, 1), 7000)
		if err != nil {
			o.Failf("harness", "bind: %v", err)
			return
		}
		defer sock.Close()
		go func() {
			var r srvResult
			defer func() { srvDone <- r }()
			var from net.Addr
			var key []byte
			var sid uint32
			pending := map[uint32]*refproto.Segment{}
			nextRecv := uint32(0)
			var stream []byte
			clientAcked := uint32(0)
			send := func(spec refproto.SegSpec) {
				b, err := refproto.EncodeDatagram(key, freshNonce(), spec)
				if err == nil && len(b) <= 1500 {
					sock.WriteTo(b, from)
				}
			}
			// pump processes datagrams from the client until cond() holds
			pump := func(cond func() bool, deadline time.Time) error {
				for !cond() {
					sock.SetReadDeadline(deadline)
					buf := make([]byte, 2000)
					n, a, err := sock.ReadFrom(buf)
					if err != nil {
						return err
					}
					seg, derr := refproto.DecodeDatagram(buf[:n], keys)
					if derr != nil {
						return fmt.Errorf("reference cannot decode a datagram of the client: %w", derr)
					}
					r.clientSeg++
					if key == nil {
						from, key, sid = a, keys[seg.KeySlot], seg.Meta.SessionID
					}
					m := seg.Meta
					if refproto.IsDataAck(m.Proto) && m.UnAck > clientAcked {
						clientAcked = m.UnAck
					}
					switch {
					case m.Proto == refproto.OpenSessionRequest || refproto.IsData(m.Proto):
						if m.Seq >= nextRecv {
							pending[m.Seq] = seg
						}
						for {
							s, ok := pending[nextRecv]
							if !ok {
								break
							}
							delete(pending, nextRecv)
							stream = append(stream, s.Payload...)
							nextRecv++
						}
						if nextRecv > 1 || m.Proto != refproto.OpenSessionRequest {
							send(refproto.SegSpec{Meta: refproto.Meta{Proto: refproto.AckServerToClient, Timestamp: minute(), SessionID: sid, UnAck: nextRecv, Window: 4096}, FixLengths: true})
						}
					case m.Proto == refproto.CloseSessionResponse || m.Proto == refproto.CloseSessionRequest:
						r.sawClose = true
					}
				}
				return nil
			}
			if err := pump(func() bool { return nextRecv >= 1 }, time.Now().Add(10*time.Second)); err != nil {
				r.err = fmt.Errorf("no open session request: %w", err)
				return
			}
			resp := refproto.SegSpec{Meta: refproto.Meta{Proto: refproto.OpenSessionResponse, Timestamp: minute(), SessionID: sid, Seq: 0}, Pad2: padding(c.RespPad, c.Salt+9), FixLengths: true}
			seq := uint32(1)
			carried := c.RespCarry && len(stream) >= reqLen
			if carried {
				resp.Payload = socksResp
			}
			send(resp)
			if err := pump(func() bool { return len(stream) >= reqLen }, time.Now().Add(10*time.Second)); err != nil {
				r.err = fmt.Errorf("SOCKS5 request incomplete (%d of %d bytes): %w", len(stream), reqLen, err)
				return
			}
			if !carried {
				send(refproto.SegSpec{Meta: refproto.Meta{Proto: refproto.DataServerToClient, Timestamp: minute(), SessionID: sid, Seq: seq, UnAck: nextRecv, Window: 4096}, Payload: socksResp, FixLengths: true})
				seq++
			}
			for i, s := range c.Segs {
				send(buildDown(i, s, sid, seq, nextRecv))
				if !s.Ack {
					seq++
				}
			}
			if err := pump(func() bool { return int64(len(stream)) >= int64(reqLen)+expectUp && clientAcked >= seq }, time.Now().Add(20*time.Second)); err != nil {
				r.req, r.up = stream[:min(reqLen, len(stream))], stream[min(reqLen, len(stream)):]
				r.err = fmt.Errorf("client sent %d of %d upstream bytes and acknowledged %d of %d segments: %w", len(stream)-reqLen, expectUp, clientAcked, seq, err)
				return
			}
			r.req, r.up = stream[:reqLen], stream[reqLen:]
			send(refproto.SegSpec{Meta: refproto.Meta{Proto: refproto.CloseSessionRequest, Timestamp: minute(), SessionID: sid, Seq: seq}, Pad2: padding(c.ClosePad, c.Salt+5), FixLengths: true})
			pump(func() bool { return r.sawClose }, time.Now().Add(5*time.Second))
		}()
	}

	if err := env.StartClient(); err != nil {
		o.Failf("start", "client start: %v", err)
		return
	}
	defer func() {
		st := make(chan struct{})
		go func() { env.Client.Stop(); close(st) }()
		select {
		case <-st:
		case <-time.After(3 * time.Second):
		}
	}()
	ctx, cancel := context.WithTimeout(context.Background(), 20*time.Second)
	defer cancel()
	conn, err := env.Dial(ctx, 0)
	if err != nil {
		r := <-srvDone
		o.Failf("accept", "the real client could not open a session against the reference server: %v (reference: %v)", err, r.err)
		return
	}
	defer conn.Close()
	werr := make(chan error, 1)
	go func() {
		off := int64(0)
		for _, n := range c.Up {
			p := make([]byte, n)
			e2e.PRFFill(upKey, off, p)
			off += int64(n)
			if _, err := conn.Write(p); err != nil {
				werr <- fmt.Errorf("client application write: %w", err)
				return
			}
		}
		werr <- nil
	}()
	got := make([]byte, downTotal)
	var rerr error
	if downTotal > 0 {
		deadline := time.Now().Add(20 * time.Second)
		n := 0
		for n < len(got) && time.Now().Before(deadline) {
			conn.SetReadDeadline(time.Now().Add(2 * time.Second))
			k, err := conn.Read(got[n:])
			n += k
			if err != nil && !e2e.IsTimeout(err) {
				rerr = err
				break
			}
		}
		got = got[:n]
	}
	want := make([]byte, downTotal)
	e2e.PRFFill(downKey, 0, want)
	if !bytes.Equal(got, want[:len(got)]) {
		o.Failf("payload", "the client application read bytes that differ from what the reference server sent (first %d bytes compared)", len(got))
		return
	}
	if int64(len(got)) < downTotal {
		r := <-srvDone
		o.Failf("accept", "the client application read %d of the %d bytes the reference server sent in well-formed segments (read error: %v; reference: %v)", len(got), downTotal, rerr, r.err)
		return
	}
	if err := <-werr; err != nil {
		o.Failf("accept", "%v", err)
		return
	}
	var r srvResult
	select {
	case r = <-srvDone:
	case <-time.After(30 * time.Second):
		o.Failf("harness", "reference server did not finish")
		return
	}
	if r.err != nil {
		o.Failf("emit", "reference server: %v", r.err)
		return
	}
	wantUp := make([]byte, expectUp)
	e2e.PRFFill(upKey, 0, wantUp)
	if !bytes.Equal(r.up, wantUp) || !bytes.Equal(r.req, e2eRequestBytes(0)) {
		o.Failf("payload", "the reference server decoded %d upstream bytes that differ from what the client application wrote (request % x)", len(r.up), r.req)
		return
	}
	// after the reference's close request the application sees end-of-stream
	// (a deadline that expires first says nothing: retried up to 30 s in all,
	// then the case is inconclusive - on an overloaded machine the reference
	// server's close request may simply not have been sent yet)
	var one [1]byte
	var k int
	for end := time.Now().Add(30 * time.Second); ; {
		conn.SetReadDeadline(time.Now().Add(5 * time.Second))
		k, err = conn.Read(one[:])
		if !(k == 0 && err != nil && e2e.IsTimeout(err)) || time.Now().After(end) {
			break
		}
	}
	if k == 0 && err != nil && e2e.IsTimeout(err) {
		o.Inconclusive = "no end-of-stream within 30 s after the reference's close request (machine overloaded?)"
		return
	}
	if !(k == 0 && err == io.EOF) {
		o.Failf("accept", "after the reference's close request the client application's Read returned n=%d err=%v, want EOF", k, err)
		return
	}
	if !r.sawClose {
		o.Failf("accept", "no closeSessionResponse to the reference server's closeSessionRequest")
	}
	return
}

func min(a, b int) int {
	if a < b {
		return a
	}
	return b
}

func TestC09Serve(t *testing.T) {
	pbt.Run(t, "C09", "serve", genServe, propServe)
}
