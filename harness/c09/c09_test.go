// C09 — what goes on the wire is exactly the documented protocol.
// Direction 1: everything a real client/server emits is decoded by refproto.
// Direction 2 (ref_test.go): segments produced by refproto are understood by
// real endpoints. See DESIGN.md section 3.9.
package c09

import (
	"bytes"
	"fmt"
	"testing"
	"time"

	"pgregory.net/rapid"

	"verif/harness/e2e"
	"verif/harness/pbt"
	"verif/harness/refproto"
	"verif/harness/simnet"
)

type EmitCase struct {
	Cfg   e2e.Config     `json:"cfg"`
	Progs []e2e.SessProg `json:"progs"`
	Salt  uint64         `json:"salt"`
	Loss  int            `json:"loss,omitempty"` // UDP: drop every Loss-th datagram (0 = none)
}

var userPool = []e2e.UserSpec{
	{Name: "alice", Password: "correct horse"},
	{Name: "bob", Password: "battery staple"},
	{Name: "a-user-name-that-is-rather-long-0123456789", Password: "p"},
	{Name: "ユーザー", Password: "пароль with spaces & symbols %/?#"},
}

var sizes = []int{0, 1, 3, 4, 5, 6, 7, 8, 9, 100, 1023, 1024, 1025, 1300, 1400, 1500, 3000, 32764, 32768, 40000}

func genEmit(t *rapid.T) EmitCase {
	var c EmitCase
	c.Salt = rapid.Uint64().Draw(t, "salt")
	c.Cfg.UDP = rapid.Bool().Draw(t, "udp")
	c.Cfg.NoWait = rapid.Bool().Draw(t, "noWait")
	c.Cfg.Multiplex = rapid.IntRange(0, 4).Draw(t, "multiplex")
	nu := rapid.IntRange(1, len(userPool)).Draw(t, "nUsers")
	c.Cfg.Users = append([]e2e.UserSpec(nil), userPool[:nu]...)
	c.Cfg.ClientUser = rapid.IntRange(0, nu-1).Draw(t, "clientUser")
	c.Cfg.ClientPattern = e2e.GenPattern(t, "cp", 2)
	c.Cfg.ServerPattern = e2e.GenPattern(t, "sp", 2)
	if c.Cfg.UDP {
		c.Cfg.ClientMTU = rapid.SampledFrom([]int{0, 1280, 1400, 1500}).Draw(t, "cmtu")
		c.Cfg.ServerMTU = rapid.SampledFrom([]int{0, 1280, 1400, 1500}).Draw(t, "smtu")
		c.Loss = rapid.SampledFrom([]int{0, 0, 11, 23}).Draw(t, "loss")
	}
	n := rapid.IntRange(1, 3).Draw(t, "nSess")
	for i := 0; i < n; i++ {
		var p e2e.SessProg
		gw := func(label string) []int {
			k := rapid.IntRange(0, 4).Draw(t, label)
			var ws []int
			for j := 0; j < k; j++ {
				ws = append(ws, rapid.SampledFrom(sizes).Draw(t, label+".sz"))
			}
			return ws
		}
		p.Up.Writes = gw("up")
		p.Down.Writes = gw("down")
		if c.Cfg.NoWait && len(p.Up.Writes) == 0 {
			p.Up.Writes = []int{rapid.SampledFrom([]int{0, 1, 1000, 1010, 1011, 1012, 1013}).Draw(t, "first")}
		}
		c.Progs = append(c.Progs, p)
	}
	return c
}

func allowedProto(fromClient bool, p uint8) bool {
	if fromClient {
		return p == 2 || p == 4 || p == 5 || p == 6 || p == 8 || p == 10
	}
	return p == 3 || p == 4 || p == 5 || p == 7 || p == 9 || p == 11
}

// checkSegment validates what the document says about any emitted segment.
func checkSegment(o *pbt.Outcome, s *refproto.Segment, fromClient bool, tMin, tMax time.Time, where string) bool {
	m := s.Meta
	if !allowedProto(fromClient, m.Proto) {
		o.Failf("proto-type", "%s: protocol type %d is not documented for this direction", where, m.Proto)
		return false
	}
	lo := uint32(tMin.Unix()/60) - 1
	hi := uint32(tMax.Unix()/60) + 1
	if m.Timestamp < lo || m.Timestamp > hi {
		o.Failf("timestamp", "%s: timestamp %d is not the current minute (%d..%d)", where, m.Timestamp, lo, hi)
		return false
	}
	if refproto.IsSession(m.Proto) {
		if m.PayloadLen > 1024 {
			o.Failf("limits", "%s: session segment carries %d > 1024 bytes", where, m.PayloadLen)
			return false
		}
	} else {
		if len(s.Payload) > 32768 {
			o.Failf("limits", "%s: fragment of %d > 32768 bytes", where, len(s.Payload))
			return false
		}
		if refproto.IsLE(m.Proto) {
			if int(m.LEExtracted) != len(s.Payload) {
				o.Failf("le", "%s: extracted payload length %d but body is %d bytes", where, m.LEExtracted, len(s.Payload))
				return false
			}
			if int(m.PayloadLen) != refproto.LEEncodedLen(len(s.Payload), m.Byte1) {
				o.Failf("le", "%s: payload length %d is not ceil(N/C)*8 for N=%d mode=%d", where, m.PayloadLen, len(s.Payload), m.Byte1)
				return false
			}
		} else if int(m.PayloadLen) != len(s.Payload) {
			o.Failf("limits", "%s: payload length field %d but %d bytes present", where, m.PayloadLen, len(s.Payload))
			return false
		}
	}
	return true
}

func propEmit(c EmitCase) (o pbt.Outcome) {
	tStart := time.Now()
	sn := simnet.NewStreamNet(simnet.StreamOpts{Record: true})
	pn := simnet.NewPacketNet()
	if c.Loss > 0 {
		cnt := 0
		pn.SetFault(func(d *simnet.Datagram) simnet.Fate {
			cnt++
			if cnt%c.Loss == 0 {
				return simnet.Fate{Drop: true}
			}
			return simnet.Fate{}
		})
	}
	env, err := e2e.Start(c.Cfg, sn, pn)
	if err != nil {
		o.Failf("start", "valid configuration did not start: %v", err)
		return
	}
	res := e2e.RunTransfer(env, c.Progs, e2e.TransferOpts{Salt: c.Salt, StallAfter: 40 * time.Second, MaxWall: 90 * time.Second})
	env.StopBounded(3 * time.Second)
	tEnd := time.Now()
	o.Obs = res
	user := c.Cfg.Users[c.Cfg.ClientUser].Name
	o.Label("udp=%v", c.Cfg.UDP)
	o.Label("users=%d", len(c.Cfg.Users))
	o.Label("leClient=%v", c.Cfg.ClientPattern.LowEntropy())
	nonDefault := !c.Cfg.ClientPattern.IsDefault() || !c.Cfg.ServerPattern.IsDefault()

	complete := !res.Stalled
	for _, s := range res.Sessions {
		if s.OpenErr != "" || !(s.Up.DoneReading && s.Down.DoneReading) {
			complete = false
		}
	}

	// expected application streams per session index
	expect := func(idx, dir int) []byte {
		var pre []byte
		var total int64
		if dir == 0 {
			var b bytes.Buffer
			req := e2eRequestBytes(idx)
			b.Write(req)
			pre = b.Bytes()
			total = c.Progs[idx].Up.Total()
		} else {
			pre = []byte{5, 0, 0, 1, 0, 0, 0, 0, 0, 0}
			total = c.Progs[idx].Down.Total()
		}
		body := make([]byte, total)
		e2e.PRFFill(e2e.StreamKey(c.Salt, idx, dir), 0, body)
		return append(pre, body...)
	}
	matchStream := func(got []byte, dir int, where string) bool {
		// identify the session from the SOCKS5 request / by trying all
		for idx := range c.Progs {
			want := expect(idx, dir)
			if complete {
				if bytes.Equal(got, want) {
					return true
				}
			} else if len(got) <= len(want) && bytes.Equal(got, want[:len(got)]) {
				return true
			}
		}
		o.Failf("payload", "%s: payload stream decoded by the reference (%d bytes) is not what any application wrote", where, len(got))
		return false
	}

	retrans := 0
	if !c.Cfg.UDP {
		links := e2e.DecodeLinks(sn, c.Cfg.Users, tStart, tEnd)
		o.Label("links=%d", len(links))
		for _, l := range links {
			for dir, segs := range [][]*refproto.Segment{l.C2S, l.S2C} {
				fromClient := dir == 0
				name := []string{"client->server", "server->client"}[dir]
				derr, res_ := l.ErrC2S, l.ResC2S
				if dir == 1 {
					derr, res_ = l.ErrS2C, l.ResS2C
				}
				if derr == refproto.ErrNeedMore {
					// The stream ends inside a segment: the connection was torn down
					// (Stop) while its last segment was being written. Allowed.
					o.Label("tail-cut")
					derr = nil
				}
				if derr != nil {
					o.Failf("decode", "link %d %s: reference decoder stopped after %d segments with %d undecoded bytes: %v", l.LinkID, name, len(segs), res_, derr)
					return
				}
				for i, s := range segs {
					where := fmt.Sprintf("link %d %s segment %d %s", l.LinkID, name, i, e2e.DescribeSeg(s))
					if !checkSegment(&o, s, fromClient, tStart, tEnd, where) {
						return
					}
					if (i == 0) != (len(s.Nonce) > 0) {
						o.Failf("nonce", "%s: nonce present=%v", where, len(s.Nonce) > 0)
						return
					}
					if i == 0 && fromClient {
						if l.UserC2S != c.Cfg.ClientUser {
							o.Failf("key", "%s: opened by the key of user #%d, client is user #%d", where, l.UserC2S, c.Cfg.ClientUser)
							return
						}
						if !refproto.HintMatches(user, s.Nonce) {
							o.Failf("hint", "%s: nonce does not carry the documented user hint", where)
							return
						}
					}
				}
				for sid, got := range e2e.SessionStream(segs) {
					if !matchStream(got, dir, fmt.Sprintf("link %d %s session id %d", l.LinkID, name, sid)) {
						return
					}
				}
			}
		}
	} else {
		dgrams, _ := pn.Snapshot()
		dec := e2e.DecodeDatagrams(dgrams, 7000, c.Cfg.Users, tStart, tEnd)
		o.Label("dgrams>0=%v", len(dec) > 0)
		type skey struct {
			sid        uint32
			fromClient bool
		}
		streams := map[skey]map[uint32][]byte{}
		for i, d := range dec {
			where := fmt.Sprintf("datagram %d (%d bytes, fromClient=%v)", i, len(d.D.Data), d.FromClient)
			if d.Seg == nil {
				o.Failf("decode", "%s: reference decoder rejects it: %v", where, d.Err)
				return
			}
			where += " " + e2e.DescribeSeg(d.Seg)
			if !checkSegment(&o, d.Seg, d.FromClient, tStart, tEnd, where) {
				return
			}
			if d.User != c.Cfg.ClientUser {
				o.Failf("key", "%s: opened by the key of user #%d, client is user #%d", where, d.User, c.Cfg.ClientUser)
				return
			}
			if d.FromClient && !refproto.HintMatches(user, d.Seg.Nonce) {
				o.Failf("hint", "%s: nonce does not carry the documented user hint", where)
				return
			}
			if len(d.Seg.Payload) > 0 {
				k := skey{d.Seg.Meta.SessionID, d.FromClient}
				if streams[k] == nil {
					streams[k] = map[uint32][]byte{}
				}
				if prev, ok := streams[k][d.Seg.Meta.Seq]; ok {
					retrans++
					if !bytes.Equal(prev, d.Seg.Payload) {
						o.Failf("retrans", "%s: retransmission differs from first transmission", where)
						return
					}
				}
				streams[k][d.Seg.Meta.Seq] = d.Seg.Payload
			}
		}
		for k, bySeq := range streams {
			// reassemble in sequence order
			var seqs []uint32
			for s := range bySeq {
				seqs = append(seqs, s)
			}
			for i := 0; i < len(seqs); i++ {
				for j := i + 1; j < len(seqs); j++ {
					if seqs[j] < seqs[i] {
						seqs[i], seqs[j] = seqs[j], seqs[i]
					}
				}
			}
			var got []byte
			for _, s := range seqs {
				got = append(got, bySeq[s]...)
			}
			dir := 1
			if k.fromClient {
				dir = 0
			}
			if !matchStream(got, dir, fmt.Sprintf("udp session id %d fromClient=%v", k.sid, k.fromClient)) {
				return
			}
		}
	}
	o.Label("retrans=%v", retrans > 0)
	o.NonTrivial = nonDefault || retrans > 0
	// transfer-level failures belong to C01/C02; here only note them
	if !complete {
		o.Label("incomplete")
	}
	return
}

func e2eRequestBytes(idx int) []byte {
	name := fmt.Sprintf("s%d.test", idx)
	b := []byte{5, 1, 0, 3, byte(len(name))}
	b = append(b, name...)
	return append(b, 0, 80)
}

func TestC09Emit(t *testing.T) {
	pbt.Run(t, "C09", "emit", genEmit, propEmit)
}
