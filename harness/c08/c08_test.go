//go:build verif

// C08 — clocks within one minute always agree on keys; stale segments are
// refused; cached key material is never used for another slot.
// (a) key agreement at arbitrary instants and (b) cache histories, white-box
// through the cipher hooks. (c) real-clock timestamps: package c08e2e.
// See DESIGN.md section 3.8.
package c08

import (
	"bytes"
	"fmt"
	"testing"
	"time"

	"github.com/enfein/mieru/v3/pkg/cipher"
	"github.com/enfein/mieru/v3/pkg/mathext"
	"golang.org/x/crypto/chacha20poly1305"
	"pgregory.net/rapid"

	"verif/harness/pbt"
	"verif/harness/refproto"
)

// ---- (a) agreement -------------------------------------------------------------

type AgreeCase struct {
	UnixNs int64 `json:"unixNs"` // client instant
	SkewNs int64 `json:"skewNs"` // server clock = client clock + skew
	PW     int   `json:"pw"`
}

var passwords = [][]byte{refproto.HashedPassword("pw-one", "alice"), refproto.HashedPassword("pw-two", "bob")}

func genInstant(t *rapid.T, label string) int64 {
	base := int64(1700000000)
	switch rapid.IntRange(0, 3).Draw(t, label+".class") {
	case 0:
		// around a multiple of 120 s (slot centre) or 120k+60 (slot boundary) or a minute tick
		k := rapid.Int64Range(0, 3000000).Draw(t, label+".k")
		unit := rapid.SampledFrom([]int64{60, 120}).Draw(t, label+".unit")
		off := rapid.SampledFrom([]int64{0, 1, -1, 1000000, -1000000, 1000000000, -1000000000, 59999999999, 60000000000, 60000000001}).Draw(t, label+".off")
		return (base/unit*unit+k*unit)*1000000000 + off
	case 1:
		return rapid.Int64Range(1000000000, 4000000000).Draw(t, label+".sec")*1000000000 + rapid.Int64Range(0, 999999999).Draw(t, label+".ns")
	}
	return (base+rapid.Int64Range(0, 200000000).Draw(t, label+".s"))*1000000000 + rapid.Int64Range(0, 999999999).Draw(t, label+".n")
}

func genAgree(t *rapid.T) AgreeCase {
	c := AgreeCase{UnixNs: genInstant(t, "t"), PW: rapid.IntRange(0, 1).Draw(t, "pw")}
	switch rapid.IntRange(0, 4).Draw(t, "skewClass") {
	case 0:
		c.SkewNs = rapid.SampledFrom([]int64{0, 1, -1, 59999999999, 60000000000, -59999999999, -60000000000, 30000000000, -30000000000}).Draw(t, "skewEdge")
	case 1:
		c.SkewNs = rapid.Int64Range(-60000000000, 60000000000).Draw(t, "skewIn")
	case 2:
		c.SkewNs = rapid.SampledFrom([]int64{240000000000, -240000000000, 240000000001, 300000000000, -300000000000, 86400000000000, -86400000000000}).Draw(t, "skewOut")
	case 3:
		s := rapid.Int64Range(240000000000, 100000000000000).Draw(t, "skewFar")
		if rapid.Bool().Draw(t, "neg") {
			s = -s
		}
		c.SkewNs = s
	default:
		c.SkewNs = rapid.Int64Range(-240000000000, 240000000000).Draw(t, "skewBand")
	}
	return c
}

func containsKey(keys [][]byte, k []byte) bool {
	for _, x := range keys {
		if bytes.Equal(x, k) {
			return true
		}
	}
	return false
}

func abs64(x int64) int64 {
	if x < 0 {
		return -x
	}
	return x
}

func sealMeta(key []byte, nonceSeed byte) []byte {
	a, _ := chacha20poly1305.NewX(key)
	nonce := bytes.Repeat([]byte{nonceSeed}, 24)
	out := append([]byte(nil), nonce...)
	return a.Seal(out, nonce, bytes.Repeat([]byte{7}, 32), nil)
}

func propAgree(c AgreeCase) (o pbt.Outcome) {
	pw := passwords[c.PW]
	tc := time.Unix(0, c.UnixNs)
	ts := time.Unix(0, c.UnixNs+c.SkewNs)
	// the document's rule, computed in integer arithmetic on nanoseconds
	refSlot := func(ns int64) int64 {
		const span = int64(120) * 1000000000
		q := ns / span
		r := ns - q*span
		if r < 0 {
			q--
			r += span
		}
		if r*2 >= span {
			q++
		}
		return q * 120
	}
	clientKey := refproto.KeyForSlot(pw, refSlot(c.UnixNs))
	// mieru's client key for instant tc is the middle key of VerifKeysAt(tc)
	ck, err := cipher.VerifKeysAt(pw, tc)
	if err != nil || len(ck) != 3 {
		o.Failf("harness", "VerifKeysAt: %v", err)
		return
	}
	sameSlot := refSlot(c.UnixNs) == refSlot(c.UnixNs+c.SkewNs)
	sameMinute := floorDiv(c.UnixNs, 60e9) == floorDiv(c.UnixNs+c.SkewNs, 60e9)
	o.NonTrivial = !sameSlot || !sameMinute
	o.Label("sameSlot=%v", sameSlot)
	o.Label("skew<=60=%v,>=240=%v", abs64(c.SkewNs) <= 60e9, abs64(c.SkewNs) >= 240e9)
	if !bytes.Equal(ck[1], clientKey) {
		o.Failf("derivation", "client key at %v is not PBKDF2(hashedPassword, SHA256(uint64(round120(t))), 64, 32): slot %d", tc.UTC(), refSlot(c.UnixNs))
		return
	}
	for i, d := range []int64{-120, 0, 120} {
		if !bytes.Equal(ck[i], refproto.KeyForSlot(pw, refSlot(c.UnixNs)+d)) {
			o.Failf("derivation", "key #%d at %v is not the key of slot %d", i, tc.UTC(), refSlot(c.UnixNs)+d)
			return
		}
	}
	sk, err := cipher.VerifKeysAt(pw, ts)
	if err != nil {
		o.Failf("harness", "VerifKeysAt: %v", err)
		return
	}
	dec, _ := cipher.NewStatelessDecryptor(pw)
	sealed := sealMeta(clientKey, byte(c.UnixNs))
	_, usedKey, derr := dec.VerifTryDecryptAt(sealed, ts)
	switch {
	case abs64(c.SkewNs) <= 60e9:
		if !containsKey(sk, clientKey) {
			o.Failf("agreement", "client at %v and server at %v (skew %v) derive no common key", tc.UTC(), ts.UTC(), time.Duration(c.SkewNs))
			return
		}
		if derr != nil || !bytes.Equal(usedKey, clientKey) {
			o.Failf("agreement", "server at %v cannot open a segment sealed by a client at %v (skew %v): %v", ts.UTC(), tc.UTC(), time.Duration(c.SkewNs), derr)
			return
		}
		// minute stamps: the client's minute is within one of the server's
		cm, sm := uint32(floorDiv(c.UnixNs, 60e9)), uint32(floorDiv(c.UnixNs+c.SkewNs, 60e9))
		if !mathext.WithinRange(sm, cm, 1) {
			o.Failf("timestamp", "server minute %d does not accept client minute %d at skew %v", sm, cm, time.Duration(c.SkewNs))
			return
		}
	case abs64(c.SkewNs) >= 240e9:
		if containsKey(sk, clientKey) || derr == nil {
			o.Failf("stale-key", "a key derived for an instant %v away is still accepted (client %v, server %v)", time.Duration(c.SkewNs), tc.UTC(), ts.UTC())
			return
		}
	}
	// minutes two or more apart are never within range
	cm := uint32(floorDiv(c.UnixNs, 60e9))
	for _, far := range []uint32{cm + 2, cm - 2, cm + 3, cm + 1000} {
		if mathext.WithinRange(cm, far, 1) {
			o.Failf("timestamp", "WithinRange accepts minute %d for clock minute %d", far, cm)
			return
		}
	}
	for _, near := range []uint32{cm, cm + 1, cm - 1} {
		if !mathext.WithinRange(cm, near, 1) {
			o.Failf("timestamp", "WithinRange rejects minute %d for clock minute %d", near, cm)
			return
		}
	}
	return
}

func floorDiv(a int64, b float64) int64 {
	bi := int64(b)
	q := a / bi
	if a%bi < 0 {
		q--
	}
	return q
}

func TestC08Agree(t *testing.T) {
	pbt.Run(t, "C08", "agree", genAgree, propAgree)
}

// ---- (b) cache histories --------------------------------------------------------

type Lookup struct {
	DeltaNs int64 `json:"d"`  // change of the clock reading relative to the previous lookup (may be negative)
	PW      int   `json:"pw"` // which password
	Kind    int   `json:"k"`  // 0 cache lookup, 1 stateless decryptor A, 2 stateless decryptor B
	Sealed  int   `json:"s"`  // for decryptor lookups: slot offset (in slots) of the key the ciphertext is sealed with
}

type CacheCase struct {
	StartNs int64    `json:"startNs"`
	Ops     []Lookup `json:"ops"`
}

func genCacheCase(t *rapid.T) CacheCase {
	c := CacheCase{StartNs: genInstant(t, "start")}
	n := rapid.IntRange(1, 40).Draw(t, "n")
	for i := 0; i < n; i++ {
		var d int64
		switch rapid.IntRange(0, 5).Draw(t, "dClass") {
		case 0:
			d = rapid.Int64Range(0, 5000000).Draw(t, "ms")
		case 1:
			d = rapid.SampledFrom([]int64{1, 1000000000, 25000000000, 30000000000, 31000000000, 59000000000, 60000000000, 61000000000, 119000000000, 120000000000, 121000000000, 600000000000}).Draw(t, "fwd")
		case 2:
			d = -rapid.SampledFrom([]int64{1, 1000000000, 30000000000, 60000000000, 61000000000, 120000000000, 121000000000, 600000000000}).Draw(t, "back")
		case 3:
			d = rapid.Int64Range(-200000000000, 200000000000).Draw(t, "any")
		default:
			d = 0
		}
		c.Ops = append(c.Ops, Lookup{DeltaNs: d, PW: rapid.IntRange(0, 1).Draw(t, "pw"), Kind: rapid.IntRange(0, 2).Draw(t, "kind"), Sealed: rapid.IntRange(-3, 3).Draw(t, "sealed")})
	}
	return c
}

func propCacheCase(c CacheCase) (o pbt.Outcome) {
	cipher.VerifResetCipherCache()
	decs := [2][2]*cipher.StatelessDecryptor{}
	for p := 0; p < 2; p++ {
		for k := 0; k < 2; k++ {
			decs[p][k], _ = cipher.NewStatelessDecryptor(passwords[p])
		}
	}
	now := c.StartNs
	crossings := 0
	prevSlot := refproto.RoundSlot(floorDiv(now, 1e9))
	for i, op := range c.Ops {
		now += op.DeltaNs
		if now < 1000000000*1000000000 {
			now = 1000000000 * 1000000000 // clocks before 2001 are outside the domain
		}
		tm := time.Unix(0, now)
		// reference slot from nanoseconds
		const span = int64(120) * 1000000000
		q := now / span
		if (now-q*span)*2 >= span {
			q++
		}
		slot := q * 120
		if slot != prevSlot {
			crossings++
			prevSlot = slot
		}
		pw := passwords[op.PW]
		want := [][]byte{refproto.KeyForSlot(pw, slot-120), refproto.KeyForSlot(pw, slot), refproto.KeyForSlot(pw, slot+120)}
		switch op.Kind {
		case 0:
			keys, epoch, _, err := cipher.VerifCachedKeysAt(string(pw), tm)
			if err != nil {
				o.Failf("harness", "lookup: %v", err)
				return
			}
			if epoch != slot {
				o.Failf("cache-slot", "lookup %d at %v returned key material of epoch %d, clock is in slot %d", i, tm.UTC(), epoch, slot)
				return
			}
			for j := range want {
				if j >= len(keys) || !bytes.Equal(keys[j], want[j]) {
					o.Failf("cache-slot", "lookup %d at %v (slot %d) returned key #%d that belongs to another slot or password", i, tm.UTC(), slot, j)
					return
				}
			}
		default:
			sealedSlot := slot + int64(op.Sealed)*120
			ct := sealMeta(refproto.KeyForSlot(pw, sealedSlot), byte(i))
			_, used, err := decs[op.PW][op.Kind-1].VerifTryDecryptAt(ct, tm)
			shouldOpen := op.Sealed >= -1 && op.Sealed <= 1
			if shouldOpen != (err == nil) {
				o.Failf("cache-slot", "lookup %d: decryptor at %v (slot %d) on a segment sealed for slot %+d: opened=%v, want %v", i, tm.UTC(), slot, op.Sealed, err == nil, shouldOpen)
				return
			}
			if err == nil && !bytes.Equal(used, refproto.KeyForSlot(pw, sealedSlot)) {
				o.Failf("cache-slot", "lookup %d: opened with a key of another slot", i)
				return
			}
			// a segment sealed under the OTHER password never opens
			other := sealMeta(refproto.KeyForSlot(passwords[1-op.PW], slot), byte(i))
			if _, _, err := decs[op.PW][op.Kind-1].VerifTryDecryptAt(other, tm); err == nil {
				o.Failf("cache-slot", "lookup %d: decryptor of one credential opened a segment of another", i)
				return
			}
		}
	}
	o.NonTrivial = crossings > 0
	o.Label("crossings=%d", min(crossings, 5))
	return
}

func min(a, b int) int {
	if a < b {
		return a
	}
	return b
}

func TestC08Cache(t *testing.T) {
	pbt.Run(t, "C08", "cache", genCacheCase, propCacheCase)
}

var _ = fmt.Sprintf
