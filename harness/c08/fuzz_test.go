//go:build verif

package c08

import (
	"testing"

	"verif/harness/pbt"
)

// Coverage-guided campaigns over the generated cases of the two pure sub-checks.
func FuzzC08Agree(f *testing.F) { pbt.Fuzz(f, "C08", "agree", genAgree, propAgree) }
func FuzzC08Cache(f *testing.F) { pbt.Fuzz(f, "C08", "cache", genCacheCase, propCacheCase) }
