//go:build verif

// C17 — low-entropy encoding is lossless, canonical, and identical on every
// CPU path. White-box through the verif hooks. See DESIGN.md section 3.17.
package c17

import (
	"bytes"
	"fmt"
	"math/bits"
	"testing"

	"github.com/enfein/mieru/v3/pkg/mathext"
	"github.com/enfein/mieru/v3/pkg/protocol"
	"pgregory.net/rapid"

	"verif/harness/e2e"
	"verif/harness/pbt"
	"verif/harness/refproto"
)

// ---- (1) round trip, length law, agreement with the reference encoder -------

type CodecCase struct {
	N        int    `json:"n"`
	Mode     uint8  `json:"mode"`
	MaskBits []int  `json:"maskBits"`
	Rot      uint8  `json:"rot"`
	PadBit   uint8  `json:"padBit"`
	Salt     uint64 `json:"salt"`
	Fill     int    `json:"fill"` // 0 PRF, 1 all 0x00, 2 all 0xFF
}

func maskFromBits(pos []int) uint32 {
	var m uint32
	for _, p := range pos {
		m |= 1 << uint(p)
	}
	return m
}

func genMaskBits(t *rapid.T, ones int) []int {
	all := make([]int, 32)
	for i := range all {
		all[i] = i
	}
	switch rapid.IntRange(0, 4).Draw(t, "maskShape") {
	case 0: // low bits
		return all[:ones]
	case 1: // high bits
		return all[32-ones:]
	case 2: // periodic
		var p []int
		for i := 0; len(p) < ones && i < 32; i += 2 {
			p = append(p, i)
		}
		for i := 1; len(p) < ones; i += 2 {
			p = append(p, i)
		}
		return p
	}
	perm := rapid.Permutation(all).Draw(t, "maskPerm")
	return append([]int(nil), perm[:ones]...)
}

func genLen(t *rapid.T, mode uint8) int {
	c := refproto.LESourceBytes(mode)
	switch rapid.IntRange(0, 5).Draw(t, "lenClass") {
	case 0:
		return rapid.IntRange(1, 40).Draw(t, "small")
	case 1:
		k := rapid.IntRange(1, 200).Draw(t, "k")
		return k*c + rapid.IntRange(-1, 1).Draw(t, "pm")
	case 2:
		return rapid.SampledFrom([]int{1, c - 1, c, c + 1, 63 * c, 64 * c, 64*c + 1, 65 * c, 1400, 32764, 32767, 32768}).Draw(t, "edge")
	case 3:
		return rapid.IntRange(1, 32768).Draw(t, "uniform")
	}
	return rapid.IntRange(1, 2000).Draw(t, "mid")
}

func genCodec(t *rapid.T) CodecCase {
	var c CodecCase
	c.Mode = uint8(rapid.IntRange(1, 4).Draw(t, "mode"))
	c.MaskBits = genMaskBits(t, refproto.LESourceBytes(c.Mode)*4)
	c.Rot = uint8(rapid.SampledFrom(e2e.ValidRotations).Draw(t, "rot"))
	c.PadBit = uint8(rapid.IntRange(0, 1).Draw(t, "padBit"))
	c.N = genLen(t, c.Mode)
	if c.N < 1 {
		c.N = 1
	}
	c.Salt = rapid.Uint64().Draw(t, "salt")
	c.Fill = rapid.SampledFrom([]int{0, 0, 0, 1, 2}).Draw(t, "fill")
	return c
}

func body(c CodecCase) []byte {
	b := make([]byte, c.N)
	switch c.Fill {
	case 1:
	case 2:
		for i := range b {
			b[i] = 0xff
		}
	default:
		e2e.PRFFill(c.Salt, 0, b)
	}
	return b
}

func propCodec(c CodecCase) (o pbt.Outcome) {
	src := body(c)
	mask := maskFromBits(c.MaskBits)
	cb := refproto.LESourceBytes(c.Mode)
	chunks := (c.N + cb - 1) / cb
	o.NonTrivial = c.N%cb != 0 || (c.Rot != 0 && chunks >= 3)
	o.Label("mode=%d", c.Mode)
	o.Label("partial=%v", c.N%cb != 0)
	o.Label("rot=%v", c.Rot != 0)
	o.Label("chunks>=65=%v", chunks >= 65)

	want, err := refproto.LEEncode(src, c.Mode, mask, c.Rot, c.PadBit)
	if err != nil {
		o.Failf("harness", "reference encoder rejected a valid input: %v", err)
		return
	}
	// mode 1 cannot represent more than 32764 bytes in the 16-bit length field
	got, err := protocol.VerifLEEncode(src, c.Mode, mask, c.Rot, c.PadBit)
	if len(want) > 65535 {
		if err == nil {
			o.Failf("length", "encoder accepted %d bytes in mode %d although the encoded length %d exceeds 16 bits", c.N, c.Mode, len(want))
		}
		return
	}
	if err != nil {
		o.Failf("encode", "encoder rejected a valid input (n=%d mode=%d mask=%08x rot=%d): %v", c.N, c.Mode, mask, c.Rot, err)
		return
	}
	if len(got) != chunks*8 {
		o.Failf("length", "encoded length %d, want ceil(%d/%d)*8 = %d", len(got), c.N, cb, chunks*8)
		return
	}
	if !bytes.Equal(got, want) {
		i := 0
		for i < len(got) && got[i] == want[i] {
			i++
		}
		o.Failf("encode", "encoding differs from the document's bit rule at byte %d (chunk %d): got %x want %x", i, i/8, got[i/8*8:i/8*8+8], want[i/8*8:i/8*8+8])
		return
	}
	dec, err := protocol.VerifLEDecode(got, c.N, c.Mode, mask, c.Rot)
	if err != nil {
		o.Failf("decode", "decoder rejected the encoder's output: %v", err)
		return
	}
	if !bytes.Equal(dec, src) {
		o.Failf("roundtrip", "decode(encode(x)) != x for n=%d mode=%d mask=%08x rot=%d pad=%d", c.N, c.Mode, mask, c.Rot, c.PadBit)
		return
	}
	// receiver path with metadata validation, body followed by a 16-byte tag
	tag := bytes.Repeat([]byte{0xA5}, 16)
	wire := append(append([]byte(nil), got...), tag...)
	out, err := protocol.VerifLEDecodeWire(wire, 10, c.Mode, uint16(len(got)), mask, uint16(c.N), c.Rot)
	if err != nil {
		o.Failf("decode", "receiver path rejected a valid segment: %v", err)
		return
	}
	if !bytes.Equal(out, append(append([]byte(nil), src...), tag...)) {
		o.Failf("roundtrip", "receiver path does not return body||tag unchanged")
	}
	return
}

// bothPaths evaluates a property on the routines selected at start-up (BMI2
// where the CPU has it) and again with the portable routines selected, so
// that the codec is exercised on every CPU path this host can execute.
func bothPaths[C any](prop func(C) pbt.Outcome) func(C) pbt.Outcome {
	return func(c C) pbt.Outcome {
		o := prop(c)
		if o.Violation != "" {
			return o
		}
		mathext.VerifSelectGeneric(true)
		p := prop(c)
		mathext.VerifSelectGeneric(false)
		if p.Violation != "" {
			p.Sig = "portable-path/" + p.Sig
			p.Violation = "with the portable PDEP/PEXT routines selected: " + p.Violation
			return p
		}
		o.Label("paths=active+portable")
		return o
	}
}

func TestC17Codec(t *testing.T) {
	pbt.Run(t, "C17", "codec", genCodec, bothPaths(propCodec))
}

// ---- (2)+(3) canonicity and rejection ---------------------------------------

type DecodeCase struct {
	Base     CodecCase `json:"base"`
	Kind     int       `json:"kind"` // 0 valid, 1 flip one bit, 2 mask weight +-1, 3 bad rotation, 4 bad mode, 5 length off, 6 random bytes, 7 flip polarity of one chunk, 8 extracted length off
	Pos      int       `json:"pos"`
	Delta    int       `json:"delta"`
	BadRot   uint8     `json:"badRot"`
	BadMode  uint8     `json:"badMode"`
	RandSalt uint64    `json:"randSalt"`
}

func genDecode(t *rapid.T) DecodeCase {
	var d DecodeCase
	d.Base = genCodec(t)
	if d.Base.N > 4000 {
		d.Base.N = d.Base.N%4000 + 1
	}
	d.Kind = rapid.IntRange(0, 8).Draw(t, "kind")
	d.Pos = rapid.IntRange(0, 1<<20).Draw(t, "pos")
	d.Delta = rapid.SampledFrom([]int{-8, -1, 1, 8, 16}).Draw(t, "delta")
	d.BadRot = uint8(rapid.SampledFrom([]int{17, 18, 31, 33, 47, 100, 129, 241, 255}).Draw(t, "badRot"))
	d.BadMode = uint8(rapid.SampledFrom([]int{0, 5, 6, 255}).Draw(t, "badMode"))
	d.RandSalt = rapid.Uint64().Draw(t, "randSalt")
	return d
}

// refDecode is the strict reference decoder plus the documented 32768-byte
// fragment limit.
func refDecode(enc []byte, n int, mode uint8, mask uint32, rot uint8) ([]byte, error) {
	if n > 32768 {
		return nil, fmt.Errorf("extracted length %d exceeds the 32768-byte fragment limit", n)
	}
	return refproto.LEDecode(enc, n, mode, mask, rot)
}

// accept reports whether mieru's receiver path accepts the input, and the body.
func accept(enc []byte, n int, mode uint8, mask uint32, rot uint8) ([]byte, bool) {
	if len(enc) > 65535 || n > 65535 || n < 0 {
		return nil, false
	}
	wire := append(append([]byte(nil), enc...), make([]byte, 16)...)
	out, err := protocol.VerifLEDecodeWire(wire, 11, mode, uint16(len(enc)), mask, uint16(n), rot)
	if err != nil {
		return nil, false
	}
	return out[:len(out)-16], true
}

func propDecode(d DecodeCase) (o pbt.Outcome) {
	c := d.Base
	src := body(c)
	mask := maskFromBits(c.MaskBits)
	enc, err := refproto.LEEncode(src, c.Mode, mask, c.Rot, c.PadBit)
	if err != nil || len(enc) > 65535 {
		return
	}
	n, mode, rot := c.N, c.Mode, c.Rot
	o.Label("kind=%d", d.Kind)
	switch d.Kind {
	case 1:
		p := d.Pos % (len(enc) * 8)
		enc[p/8] ^= 1 << uint(p%8)
	case 2:
		// change the mask population by one
		p := uint(d.Pos % 32)
		mask ^= 1 << p
	case 3:
		rot = d.BadRot
	case 4:
		mode = d.BadMode
	case 5:
		if d.Delta > 0 {
			enc = append(enc, make([]byte, d.Delta)...)
		} else if len(enc)+d.Delta > 0 {
			enc = enc[:len(enc)+d.Delta]
		}
	case 6:
		e2e.PRFFill(d.RandSalt, 0, enc)
	case 7:
		// invert all padding positions of one chunk (polarity taken per chunk)
		k := d.Pos % (len(enc) / 8)
		cb := refproto.LESourceBytes(c.Mode)
		cm := refproto.LEMaskForChunk(mask, c.Rot, k)
		cnt := cb
		if rem := c.N - k*cb; rem < cnt {
			cnt = rem
		}
		// data positions: lowest cnt*8 one-bits of cm
		var dataMask uint64
		seen := 0
		for pos := 0; pos < 64 && seen < cnt*8; pos++ {
			if cm>>uint(pos)&1 == 1 {
				dataMask |= 1 << uint(pos)
				seen++
			}
		}
		for i := 0; i < 8; i++ {
			enc[k*8+i] ^= byte(^dataMask >> uint(8*(7-i)))
		}
	case 8:
		n = c.N + d.Delta
	}
	o.NonTrivial = d.Kind != 0 && d.Kind != 6

	body, ok := accept(enc, n, mode, mask, rot)
	// reference: strict decoder
	ref, rerr := refDecode(enc, n, mode, mask, rot)
	if ok {
		if rerr != nil {
			o.Failf("canonical", "decoder accepted a byte string the document forbids (kind=%d n=%d mode=%d mask=%08x/%d ones rot=%d): reference says %v", d.Kind, n, mode, mask, bits.OnesCount32(mask), rot, rerr)
			return
		}
		if !bytes.Equal(body, ref) {
			o.Failf("roundtrip", "decoder output differs from the reference decoding (kind=%d)", d.Kind)
			return
		}
		// canonicity: re-encoding the body with one of the two polarities gives the input
		e0, _ := refproto.LEEncode(body, mode, mask, rot, 0)
		e1, _ := refproto.LEEncode(body, mode, mask, rot, 1)
		if !bytes.Equal(enc, e0) && !bytes.Equal(enc, e1) {
			o.Failf("canonical", "accepted encoding is not what the encoder produces for the decoded body with either padding polarity (kind=%d)", d.Kind)
			return
		}
	} else if rerr == nil {
		o.Failf("reject-valid", "decoder rejected a canonical encoding (kind=%d n=%d mode=%d mask=%08x rot=%d)", d.Kind, n, mode, mask, rot)
	}
	return
}

func TestC17Decode(t *testing.T) {
	pbt.Run(t, "C17", "decode", genDecode, bothPaths(propDecode))
}

// ---- (4) PDEP / PEXT: portable == hardware == bit-by-bit reference ----------

type BitsCase struct {
	Seed   uint64 `json:"seed"`
	Shape  int    `json:"shape"`            // shape of the masks
	XShape int    `json:"xshape,omitempty"` // shape of the source values (0 uniform, 1 one bit, 2 two bits, 3 small, 4 low ones, 5 high ones, 6 sparse, 7 boundary table)
	Count  int    `json:"count"`
}

func refPDEP(x, mask uint64) uint64 {
	var r uint64
	k := 0
	for pos := 0; pos < 64; pos++ {
		if mask>>uint(pos)&1 == 1 {
			r |= (x >> uint(k) & 1) << uint(pos)
			k++
		}
	}
	return r
}

func refPEXT(x, mask uint64) uint64 {
	var r uint64
	k := 0
	for pos := 0; pos < 64; pos++ {
		if mask>>uint(pos)&1 == 1 {
			r |= (x >> uint(pos) & 1) << uint(k)
			k++
		}
	}
	return r
}

func genBits(t *rapid.T) BitsCase {
	return BitsCase{Seed: rapid.Uint64().Draw(t, "seed"), Shape: rapid.IntRange(0, 5).Draw(t, "shape"), XShape: rapid.IntRange(0, 7).Draw(t, "xshape"), Count: 2000}
}

var hwUsed bool

func propBits(c BitsCase) (o pbt.Outcome) {
	s := c.Seed | 1
	next := func() uint64 {
		s ^= s << 13
		s ^= s >> 7
		s ^= s << 17
		return s * 0x2545F4914F6CDD1D
	}
	hw := mathext.VerifHasBMI2()
	hwUsed = hw
	o.Label("bmi2=%v", hw)
	o.Label("shape=%d", c.Shape)
	o.Label("xshape=%d", c.XShape)
	o.NonTrivial = true
	for i := 0; i < c.Count; i++ {
		x, m := next(), next()
		switch c.XShape {
		case 1:
			x = 1 << (x % 64) // a single bit
		case 2:
			x = 1<<(x%64) | 1<<((x>>8)%64) // two bits
		case 3:
			x &= 0xff // small values
		case 4:
			x = 1<<(x%65%64) - 1 // low k bits set (0 for k = 0 or 64)
		case 5:
			x = ^uint64(0) << (x % 64) // high bits set
		case 6:
			x &= next() & next() & next() // sparse
		case 7:
			x = []uint64{0, ^uint64(0), m, ^m, 1, 1 << 63, 0x00000000ffffffff, 0x8000000000000001}[i%8]
		}
		switch c.Shape {
		case 1:
			m &= next() & next() // sparse
		case 2:
			m |= next() | next() // dense
		case 3:
			h := uint32(m)
			m = uint64(h)<<32 | uint64(h) // repeated half mask as the codec uses
		case 4:
			m = []uint64{0, ^uint64(0), 1, 1 << 63, 0x5555555555555555, 0xAAAAAAAAAAAAAAAA, 0x0f0f0f0f0f0f0f0f, 0xffffffff00000000}[i%8]
		case 5:
			m = bits.RotateLeft64(0x0000ffff0000ffff, i)
		}
		wp, we := refPDEP(x, m), refPEXT(x, m)
		if g := mathext.VerifPDEPGeneric(x, m); g != wp {
			o.Failf("pdep-generic", "pdepGeneric(%#x,%#x)=%#x want %#x", x, m, g, wp)
			return
		}
		if g := mathext.VerifPEXTGeneric(x, m); g != we {
			o.Failf("pext-generic", "pextGeneric(%#x,%#x)=%#x want %#x", x, m, g, we)
			return
		}
		if g := mathext.PDEP(x, m); g != wp {
			o.Failf("pdep-active", "PDEP(%#x,%#x)=%#x want %#x", x, m, g, wp)
			return
		}
		if g := mathext.PEXT(x, m); g != we {
			o.Failf("pext-active", "PEXT(%#x,%#x)=%#x want %#x", x, m, g, we)
			return
		}
		if hw {
			if g := mathext.VerifPDEPBMI2(x, m); g != wp {
				o.Failf("pdep-bmi2", "pdepBMI2(%#x,%#x)=%#x want %#x", x, m, g, wp)
				return
			}
			if g := mathext.VerifPEXTBMI2(x, m); g != we {
				o.Failf("pext-bmi2", "pextBMI2(%#x,%#x)=%#x want %#x", x, m, g, we)
				return
			}
		}
	}
	return
}

func TestC17Bits(t *testing.T) {
	pbt.Run(t, "C17", "bits", genBits, propBits)
}

// FuzzC17Decode: coverage-guided search for an accepted non-canonical input.
func FuzzC17Decode(f *testing.F) {
	f.Add([]byte{1, 2, 3, 4, 5, 6, 7, 8}, uint8(1), uint32(0x0f0f0f0f), uint8(0), uint16(4))
	f.Add([]byte{0xf1, 0xf2, 0xf3, 0xf4, 0xf5, 0xf6, 0xf7, 0xf8}, uint8(1), uint32(0x0f0f0f0f), uint8(0), uint16(4))
	f.Add(bytes.Repeat([]byte{0xff}, 24), uint8(4), uint32(0x0fffffff), uint8(7), uint16(20))
	f.Add(bytes.Repeat([]byte{0}, 16), uint8(2), uint32(0x000fffff), uint8(16), uint16(9))
	f.Fuzz(func(t *testing.T, enc []byte, mode uint8, mask uint32, rot uint8, n uint16) {
		body, ok := accept(enc, int(n), mode, mask, rot)
		ref, rerr := refDecode(enc, int(n), mode, mask, rot)
		if ok && rerr != nil {
			t.Fatalf("accepted non-canonical input: %v", rerr)
		}
		if ok && !bytes.Equal(body, ref) {
			t.Fatalf("decoded body differs from reference")
		}
		if !ok && rerr == nil {
			t.Fatalf("rejected a canonical encoding")
		}
	})
}

var _ = fmt.Sprintf
