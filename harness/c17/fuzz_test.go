//go:build verif

package c17

import (
	"testing"

	"verif/harness/pbt"
)

func FuzzC17Codec(f *testing.F) { pbt.Fuzz(f, "C17", "codec", genCodec, bothPaths(propCodec)) }
func FuzzC17Bits(f *testing.F)  { pbt.Fuzz(f, "C17", "bits", genBits, propBits) }
