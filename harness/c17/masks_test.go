//go:build verif

package c17

import (
	"math/bits"
	"runtime"
	"sync"
	"sync/atomic"
	"testing"

	"github.com/enfein/mieru/v3/pkg/rng"
	"pgregory.net/rapid"

	"verif/harness/pbt"
)

// (e) the half-mask source: every low-entropy segment gets a fresh half-mask
// from rng.Uint32WithBits(4*C), and the codec is only lossless when the mask
// has exactly that many one-bits (the decoder refuses any other weight). Many
// connections prepare segments at the same moment, so the source is called
// concurrently; every value must have the requested weight - during the
// concurrent phase and in the sequential calls after it (damage to shared
// state would persist).

type MaskCase struct {
	Workers int   `json:"workers"`
	Calls   int   `json:"calls"`   // per worker
	Weights []int `json:"weights"` // requested numbers of one-bits, cycled
	After   int   `json:"after"`   // sequential calls afterwards
}

func genMasks(t *rapid.T) MaskCase {
	c := MaskCase{
		Workers: rapid.SampledFrom([]int{1, 2, 4, 8, 16, 32}).Draw(t, "workers"),
		Calls:   rapid.SampledFrom([]int{10, 100, 1000, 5000}).Draw(t, "calls"),
		After:   rapid.SampledFrom([]int{0, 100, 2000}).Draw(t, "after"),
	}
	for i := rapid.IntRange(1, 4).Draw(t, "nWeights"); i > 0; i-- {
		c.Weights = append(c.Weights, rapid.SampledFrom([]int{16, 20, 24, 28, 0, 1, 31, 32}).Draw(t, "weight"))
	}
	return c
}

func propMasks(c MaskCase) (o pbt.Outcome) {
	var bad atomic.Value
	var arrived atomic.Int32
	var wg sync.WaitGroup
	for w := 0; w < c.Workers; w++ {
		wg.Add(1)
		go func(w int) {
			defer wg.Done()
			arrived.Add(1)
			for arrived.Load() < int32(c.Workers) {
				runtime.Gosched()
			}
			for k := 0; k < c.Calls; k++ {
				n := c.Weights[(w+k)%len(c.Weights)]
				if v := rng.Uint32WithBits(n); bits.OnesCount32(v) != n {
					bad.Store([3]int{n, bits.OnesCount32(v), int(v)})
					return
				}
			}
		}(w)
	}
	wg.Wait()
	o.NonTrivial = c.Workers >= 2
	o.Label("workers=%d", c.Workers)
	if b, ok := bad.Load().([3]int); ok {
		o.Failf("masks/concurrent", "with %d callers at once, rng.Uint32WithBits(%d) returned %#08x, which has %d one-bits", c.Workers, b[0], uint32(b[2]), b[1])
		return
	}
	for k := 0; k < c.After; k++ {
		n := c.Weights[k%len(c.Weights)]
		if v := rng.Uint32WithBits(n); bits.OnesCount32(v) != n {
			o.Failf("masks/after", "after %d concurrent callers, a sequential rng.Uint32WithBits(%d) returned %#08x, which has %d one-bits", c.Workers, n, v, bits.OnesCount32(v))
			return
		}
	}
	return
}

func TestC17Masks(t *testing.T) {
	pbt.Run(t, "C17", "masks", genMasks, propMasks)
}
