// Package pbt is the thin layer every property check in this harness runs on.
//
// A property is prop(case) where case is a plain, JSON-serialisable value
// drawn entirely from rapid generators. pbt.Run executes it in one of three
// modes selected by the driver (../check) through the environment:
//
//	VERIF_MODE=rapid  (default) rapid.Check over generated cases
//	VERIF_MODE=corpus run every *.json under VERIF_CORPUS as a case (regression
//	                  tier, bypasses rapid)
//	VERIF_MODE=replay run the single case stored in VERIF_REPLAY
//
// Every executed case appends one record to VERIF_STATS (JSON lines) so the
// driver can write evidence that was measured, not asserted. A violation whose
// signature is an *open* entry of VERIF_KNOWN (known_findings.json) is counted
// and the search continues; any other violation is written to VERIF_FAILOUT
// (the last write is the shrunk case) and fails the test.
package pbt

import (
	"crypto/sha256"
	"encoding/hex"
	"encoding/json"
	"fmt"
	"os"
	"path/filepath"
	"sort"
	"strconv"
	"strings"
	"sync"
	"testing"
	"time"

	"pgregory.net/rapid"
)

// Outcome is what a property reports for one case.
type Outcome struct {
	// Violation is non-empty when the property was violated by this case.
	Violation string
	// Sig classifies the violation by the *case* (not by message) so that it
	// can be matched against known_findings.json. Empty = unclassified.
	Sig string
	// Labels are class labels for the generator-distribution histogram.
	Labels []string
	// NonTrivial says whether the case is non-trivial by the property's rule.
	NonTrivial bool
	// Inconclusive is non-empty when the case ran out of its budget without
	// deciding anything (never a violation).
	Inconclusive string
	// Obs is an optional observation (run log) stored in the replay file.
	Obs any
}

func (o *Outcome) Label(format string, a ...any) {
	o.Labels = append(o.Labels, fmt.Sprintf(format, a...))
}

func (o *Outcome) Failf(sig, format string, a ...any) {
	if o.Violation == "" {
		o.Violation = fmt.Sprintf(format, a...)
		o.Sig = sig
	}
}

type statRec struct {
	Hash     string          `json:"h"`
	NT       bool            `json:"nt"`
	Labels   []string        `json:"l,omitempty"`
	Out      string          `json:"o"`
	Sig      string          `json:"sig,omitempty"`
	Msg      string          `json:"msg,omitempty"`
	Src      string          `json:"src,omitempty"`
	Case     json.RawMessage `json:"case,omitempty"`
	Millis   int64           `json:"ms"`
	Property string          `json:"p"`
}

type knownFinding struct {
	ID        string `json:"id"`
	Property  string `json:"property"`
	Status    string `json:"status"`
	Signature string `json:"signature"`
	What      string `json:"what"`
	Commit    string `json:"commit,omitempty"`
}

type failFile struct {
	Property  string          `json:"property"`
	Sub       string          `json:"sub,omitempty"`
	Violation string          `json:"violation"`
	Sig       string          `json:"sig,omitempty"`
	Case      json.RawMessage `json:"case"`
	Obs       any             `json:"obs,omitempty"`
}

var (
	mu         sync.Mutex
	statsFile  *os.File
	samplesNT  = map[string]int{}
	samplesTr  = map[string]int{}
	openSigs   map[string]map[string]bool
	deadline   time.Time
	deadlineOK bool
	initOnce   sync.Once
)

func initEnv() {
	initOnce.Do(func() {
		if p := os.Getenv("VERIF_STATS"); p != "" {
			f, err := os.OpenFile(p, os.O_CREATE|os.O_WRONLY|os.O_APPEND, 0o644)
			if err == nil {
				statsFile = f
			}
		}
		openSigs = map[string]map[string]bool{}
		if p := os.Getenv("VERIF_KNOWN"); p != "" {
			if b, err := os.ReadFile(p); err == nil {
				var doc struct {
					Findings []knownFinding `json:"findings"`
				}
				if json.Unmarshal(b, &doc) == nil {
					for _, f := range doc.Findings {
						if f.Status == "open" {
							if openSigs[f.Property] == nil {
								openSigs[f.Property] = map[string]bool{}
							}
							openSigs[f.Property][f.Signature] = true
						}
					}
				}
			}
		}
		if s := os.Getenv("VERIF_DEADLINE"); s != "" {
			if v, err := strconv.ParseInt(s, 10, 64); err == nil {
				deadline = time.Unix(v, 0)
				deadlineOK = true
			}
		}
	})
}

// Tier returns "quick" or "thorough".
func Tier() string {
	if os.Getenv("VERIF_TIER") == "thorough" {
		return "thorough"
	}
	return "quick"
}

// Thorough reports whether the thorough tier is running.
func Thorough() bool { return Tier() == "thorough" }

// PastDeadline reports whether the wall budget given by the driver is used up.
func PastDeadline() bool {
	initEnv()
	return deadlineOK && time.Now().After(deadline)
}

// IsKnown reports whether sig is an open known finding of property id.
func IsKnown(id, sig string) bool {
	initEnv()
	return sig != "" && openSigs[id][sig]
}

func hashCase(raw []byte) string {
	h := sha256.Sum256(raw)
	return hex.EncodeToString(h[:8])
}

func record(id, sub string, raw []byte, o *Outcome, out string, src string, ms int64) {
	mu.Lock()
	defer mu.Unlock()
	if statsFile == nil {
		return
	}
	key := id + "/" + sub
	r := statRec{Hash: hashCase(raw), NT: o.NonTrivial, Labels: o.Labels, Out: out, Sig: o.Sig, Src: src, Millis: ms, Property: key}
	if out != "ok" {
		r.Msg = o.Violation + o.Inconclusive
		if len(r.Msg) > 400 {
			r.Msg = r.Msg[:400]
		}
	}
	// Keep a few actual cases as samples.
	if os.Getenv("VERIF_STATS_ALLCASES") != "" {
		r.Case = raw
	} else if len(raw) < 6000 {
		if o.NonTrivial && samplesNT[key] < 3 {
			samplesNT[key]++
			r.Case = raw
		} else if !o.NonTrivial && samplesTr[key] < 1 {
			samplesTr[key]++
			r.Case = raw
		}
	}
	b, _ := json.Marshal(r)
	statsFile.Write(append(b, '\n'))
}

func writeFail(id, sub string, raw []byte, o *Outcome) {
	p := os.Getenv("VERIF_FAILOUT")
	if p == "" {
		return
	}
	ff := failFile{Property: id, Sub: sub, Violation: o.Violation, Sig: o.Sig, Case: raw, Obs: o.Obs}
	b, err := json.MarshalIndent(ff, "", " ")
	if err != nil {
		ff.Obs = fmt.Sprintf("%v", o.Obs)
		b, _ = json.MarshalIndent(ff, "", " ")
	}
	tmp := p + ".tmp"
	if os.WriteFile(tmp, b, 0o644) == nil {
		os.Rename(tmp, p)
	}
}

// writeCurrent notes the case about to be executed, so that the driver can
// attribute a process crash (mieru has no recover) to its input.
func writeCurrent(id, sub string, raw []byte) {
	p := os.Getenv("VERIF_CURCASE")
	if p == "" {
		return
	}
	b, _ := json.Marshal(failFile{Property: id, Sub: sub, Case: raw})
	os.WriteFile(p, b, 0o644)
}

// Run executes property `sub` of property id.
//
// gen draws a case; prop evaluates it. C must round-trip through
// encoding/json.
func Run[C any](t *testing.T, id, sub string, gen func(*rapid.T) C, prop func(C) Outcome) {
	initEnv()
	mode := os.Getenv("VERIF_MODE")
	switch mode {
	case "replay":
		path := os.Getenv("VERIF_REPLAY")
		c, fsub, ok := loadCase[C](t, path)
		if !ok || (fsub != "" && fsub != sub) {
			t.Skipf("replay file is for sub-check %q", fsub)
			return
		}
		raw, _ := json.Marshal(c)
		start := time.Now()
		o := prop(c)
		ms := time.Since(start).Milliseconds()
		if o.Violation != "" {
			record(id, sub, raw, &o, "viol", "replay", ms)
			writeFail(id, sub, raw, &o)
			t.Fatalf("VIOLATION %s/%s sig=%q: %s", id, sub, o.Sig, o.Violation)
		}
		record(id, sub, raw, &o, "ok", "replay", ms)
		t.Logf("replay of %s passed", path)
		if os.Getenv("VERIF_DEBUG") != "" {
			obs, _ := json.MarshalIndent(o.Obs, "", " ")
			t.Logf("labels %v\nobservation %s", o.Labels, obs)
		}
		return
	case "corpus":
		dir := os.Getenv("VERIF_CORPUS")
		files, _ := filepath.Glob(filepath.Join(dir, "*.json"))
		sort.Strings(files)
		for _, f := range files {
			c, fsub, ok := loadCase[C](t, f)
			if !ok || fsub != sub {
				continue
			}
			raw, _ := json.Marshal(c)
			start := time.Now()
			o := prop(c)
			ms := time.Since(start).Milliseconds()
			src := "corpus:" + filepath.Base(f)
			switch {
			case o.Violation != "" && IsKnown(id, o.Sig):
				record(id, sub, raw, &o, "known", src, ms)
			case o.Violation != "":
				record(id, sub, raw, &o, "viol", src, ms)
				writeFail(id, sub, raw, &o)
				t.Fatalf("VIOLATION %s/%s (corpus %s) sig=%q: %s", id, sub, filepath.Base(f), o.Sig, o.Violation)
			case o.Inconclusive != "":
				record(id, sub, raw, &o, "inconclusive", src, ms)
			default:
				record(id, sub, raw, &o, "ok", src, ms)
			}
		}
		return
	}

	rapid.Check(t, func(rt *rapid.T) {
		if PastDeadline() {
			return // budget used up: remaining iterations are no-ops and are not counted
		}
		c := gen(rt)
		raw, err := json.Marshal(c)
		if err != nil {
			rt.Fatalf("case does not serialise: %v", err)
		}
		writeCurrent(id, sub, raw)
		start := time.Now()
		o := prop(c)
		ms := time.Since(start).Milliseconds()
		switch {
		case o.Violation != "" && IsKnown(id, o.Sig):
			record(id, sub, raw, &o, "known", "rapid", ms)
		case o.Violation != "":
			record(id, sub, raw, &o, "viol", "rapid", ms)
			writeFail(id, sub, raw, &o)
			rt.Fatalf("VIOLATION %s/%s sig=%q: %s", id, sub, o.Sig, o.Violation)
		case o.Inconclusive != "":
			record(id, sub, raw, &o, "inconclusive", "rapid", ms)
		default:
			record(id, sub, raw, &o, "ok", "rapid", ms)
		}
	})
}

// Fuzz drives the same generator and property with Go's native coverage-guided
// fuzzer (thorough tier): the fuzzer's bytes are rapid's random bit stream, so
// every input is a generated case and the oracle is the property itself. A
// violation that is an open known finding is skipped so that the campaign goes
// on behind it.
func Fuzz[C any](f *testing.F, id, sub string, gen func(*rapid.T) C, prop func(C) Outcome) {
	initEnv()
	// seeds: deterministic byte strings long enough for the generators to draw from
	for i := 0; i < 12; i++ {
		n := 256 << (i % 5)
		b := make([]byte, 0, n+32)
		for k := 0; len(b) < n; k++ {
			h := sha256.Sum256([]byte(fmt.Sprintf("%s/%s/%d/%d", id, sub, i, k)))
			b = append(b, h[:]...)
		}
		if i%3 == 2 {
			// low values make rapid's draws small: short sequences, boundary picks
			for k := range b {
				b[k] &= 0x0F
			}
		}
		f.Add(b[:n])
	}
	f.Fuzz(rapid.MakeFuzz(func(rt *rapid.T) {
		c := gen(rt)
		o := prop(c)
		if o.Violation != "" && !IsKnown(id, o.Sig) {
			raw, _ := json.Marshal(c)
			rt.Fatalf("VIOLATION %s/%s sig=%q: %s\ncase: %s", id, sub, o.Sig, o.Violation, raw)
		}
	}))
}

func loadCase[C any](t *testing.T, path string) (C, string, bool) {
	var zero C
	b, err := os.ReadFile(path)
	if err != nil {
		t.Fatalf("cannot read %s: %v", path, err)
	}
	var ff failFile
	if err := json.Unmarshal(b, &ff); err != nil {
		t.Fatalf("cannot parse %s: %v", path, err)
	}
	if len(ff.Case) == 0 {
		return zero, "", false
	}
	var c C
	dec := json.NewDecoder(strings.NewReader(string(ff.Case)))
	if err := dec.Decode(&c); err != nil {
		// A file for a different sub-check may not fit this type.
		return zero, ff.Sub, false
	}
	return c, ff.Sub, true
}

// Budget helpers -----------------------------------------------------------

// Pick returns q in the quick tier and th in the thorough tier.
func Pick[T any](q, th T) T {
	if Thorough() {
		return th
	}
	return q
}
