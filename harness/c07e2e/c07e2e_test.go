// C07 (end to end) — "once a reload of the user list has completed no new
// connection is authenticated with a credential that is no longer registered",
// and every accepted session is attributed to the user whose credential
// authenticates it: real clients against a real server whose user list is
// reloaded while connections of the affected users are live. The white-box
// sub-check (../c07) decides this for the registry alone; here the whole accept
// path runs, including whatever the transports cache per peer.
package c07e2e

import (
	"context"
	"fmt"
	"net"
	"sync"
	"testing"
	"time"

	"github.com/enfein/mieru/v3/apis/client"
	pb "github.com/enfein/mieru/v3/pkg/appctl/appctlpb"
	"google.golang.org/protobuf/proto"
	"pgregory.net/rapid"

	"verif/harness/e2e"
	"verif/harness/pbt"
	"verif/harness/simnet"
)

type Member struct {
	User    int `json:"u"`
	Variant int `json:"v"` // which of the user's two passwords is registered
}

type Op struct {
	Kind int `json:"k"` // 0 connect, 1 reload
	// connect
	User    int  `json:"u,omitempty"`
	Variant int  `json:"v,omitempty"`
	IP      int  `json:"ip,omitempty"`   // source address of the (new) client
	Keep    bool `json:"keep,omitempty"` // the connection stays open until the end of the case
	// reload
	Set int `json:"set,omitempty"`
}

type Case struct {
	UDP       bool       `json:"udp,omitempty"`
	Mandatory bool       `json:"mandatory,omitempty"`
	LongNames bool       `json:"longNames,omitempty"`
	Sets      [][]Member `json:"sets"`
	Ops       []Op       `json:"ops"`
	Salt      uint64     `json:"salt"`
}

const nUsers = 4

func userName(c *Case, i int) string {
	if c.LongNames {
		return (fmt.Sprintf("user-%d-", i) + "a-rather-long-name-0123456789abcdefghijklmnopqrstuvwxyzABCDEFGHIJKLMNOP")[:49+5*i]
	}
	return fmt.Sprintf("user%d", i)
}

func password(i, v int) string { return fmt.Sprintf("pw-%d-%d", i, v) }

func gen(t *rapid.T) Case {
	var c Case
	c.UDP = rapid.Bool().Draw(t, "udp")
	c.Mandatory = rapid.IntRange(0, 3).Draw(t, "mandatory") == 0
	c.LongNames = rapid.IntRange(0, 4).Draw(t, "longNames") == 0
	nSets := rapid.IntRange(2, 3).Draw(t, "nSets")
	for s := 0; s < nSets; s++ {
		var set []Member
		for u := 0; u < nUsers; u++ {
			if rapid.IntRange(0, 3).Draw(t, "member") != 0 {
				set = append(set, Member{u, rapid.IntRange(0, 1).Draw(t, "variant")})
			}
		}
		if len(set) == 0 {
			set = []Member{{0, 0}}
		}
		c.Sets = append(c.Sets, set)
	}
	// phases: connections under the first list (mostly kept open), a reload,
	// new connections - mostly with credentials that are or were registered -
	// and possibly a second reload and more connections
	reloads := 0
	connect := func(phase int) {
		op := Op{Kind: 0, User: rapid.IntRange(0, nUsers-1).Draw(t, "user"), Variant: rapid.IntRange(0, 1).Draw(t, "pw"),
			IP: rapid.IntRange(0, 1).Draw(t, "ip"), Keep: rapid.IntRange(0, 3).Draw(t, "keep") != 0}
		if rapid.IntRange(0, 4).Draw(t, "aimed") != 0 {
			set := c.Sets[rapid.IntRange(0, phase).Draw(t, "fromSet")]
			m := set[rapid.IntRange(0, len(set)-1).Draw(t, "member")]
			op.User, op.Variant = m.User, m.Variant
		}
		c.Ops = append(c.Ops, op)
	}
	for phase := 0; phase < nSets; phase++ {
		if phase > 0 {
			reloads++
			c.Ops = append(c.Ops, Op{Kind: 1, Set: phase})
		}
		for k := rapid.IntRange(1, 2).Draw(t, "nConnects"); k > 0; k-- {
			connect(phase)
		}
	}
	c.Salt = rapid.Uint64().Draw(t, "salt")
	return c
}

type streamDialer struct {
	n  *simnet.StreamNet
	ip net.IP
}

func (d streamDialer) DialContext(ctx context.Context, network, address string) (net.Conn, error) {
	conn, _, err := d.n.DialLinkFrom(address, d.ip)
	return conn, err
}

type packetDialer struct {
	n  *simnet.PacketNet
	ip net.IP
}

func (d packetDialer) ListenPacket(ctx context.Context, network, laddr, raddr string) (net.PacketConn, error) {
	return d.n.Bind(d.ip, 0)
}

func specs(c *Case, set []Member) []e2e.UserSpec {
	var us []e2e.UserSpec
	for _, m := range set {
		us = append(us, e2e.UserSpec{Name: userName(c, m.User), Password: password(m.User, m.Variant)})
	}
	return us
}

func prop(c Case) (o pbt.Outcome) {
	cfg := e2e.Config{UDP: c.UDP, Users: specs(&c, c.Sets[0]), HintMandatory: c.Mandatory, ServerMux: true}
	sn := simnet.NewStreamNet(simnet.StreamOpts{})
	pn := simnet.NewPacketNet()
	env, err := e2e.StartServer(cfg, sn, pn)
	if err != nil {
		o.Failf("start", "start: %v", err)
		return
	}
	defer env.StopBounded(5 * time.Second)
	current := map[int]int{}
	for _, m := range c.Sets[0] {
		current[m.User] = m.Variant
	}
	ips := []net.IP{net.IPv4(10, 0, 0, 2), net.IPv4(10, 0, 0, 3)}
	var kept []func()
	defer func() {
		var wg sync.WaitGroup
		for _, f := range kept {
			wg.Add(1)
			go func(f func()) { defer wg.Done(); f() }(f)
		}
		wg.Wait()
	}()
	liveOf := map[int]int{} // user -> live kept connections
	reloaded, staleWithLive, sameIPLive := false, false, false
	liveIP := map[int]map[int]bool{}
	var timeline []string
	t0 := time.Now()
	mark := func(f string, a ...any) {
		timeline = append(timeline, fmt.Sprintf("%6dms ", time.Since(t0).Milliseconds())+fmt.Sprintf(f, a...))
	}
	defer func() { o.Obs = timeline }()
	for i, op := range c.Ops {
		mark("op %d kind %d", i, op.Kind)
		if op.Kind == 1 {
			set := c.Sets[op.Set]
			env.ReloadUsers(specs(&c, set))
			current = map[int]int{}
			for _, m := range set {
				current[m.User] = m.Variant
			}
			reloaded = true
			continue
		}
		name := userName(&c, op.User)
		v, registered := current[op.User]
		expect := registered && v == op.Variant
		if !expect && reloaded && liveOf[op.User] > 0 {
			staleWithLive = true
			if liveIP[op.User][op.IP] {
				sameIPLive = true
			}
		}
		tp := pb.TransportProtocol_TCP
		if c.UDP {
			tp = pb.TransportProtocol_UDP
		}
		cl := client.NewClient()
		err := cl.Store(&client.ClientConfig{
			Profile: &pb.ClientProfile{
				ProfileName: proto.String("verif"),
				User:        &pb.User{Name: proto.String(name), Password: proto.String(password(op.User, op.Variant))},
				Servers: []*pb.ServerEndpoint{{
					IpAddress:    proto.String("10.0.0.1"),
					PortBindings: []*pb.PortBinding{{Port: proto.Int32(7000), Protocol: tp.Enum()}},
				}},
			},
			Dialer:       streamDialer{sn, ips[op.IP]},
			PacketDialer: packetDialer{pn, ips[op.IP]},
		})
		if err == nil {
			err = cl.Start()
		}
		if err != nil {
			o.Failf("harness", "client: %v", err)
			return
		}
		wait := 2500 * time.Millisecond
		if expect {
			wait = 15 * time.Second
		}
		before := env.Accepts()
		ctx, cancel := context.WithTimeout(context.Background(), wait)
		// apis/client waits its own 10 s for the server's answer whatever the
		// context says; the harness does not wait longer than `wait`
		type dres struct {
			conn net.Conn
			err  error
		}
		dch := make(chan dres, 1)
		go func() {
			conn, err := cl.DialContext(ctx, e2e.DestAddr(i))
			dch <- dres{conn, err}
		}()
		var conn net.Conn
		var derr error
		select {
		case r := <-dch:
			conn, derr = r.conn, r.err
		case <-time.After(wait):
			derr = fmt.Errorf("harness: no answer within %v", wait)
			go func() {
				if r := <-dch; r.conn != nil {
					r.conn.Close()
				}
			}()
		}
		cancel()
		mark("op %d dial returned err=%v", i, derr)
		var sc *e2e.ServerConn
		if derr == nil || !expect {
			st := 200 * time.Millisecond
			if derr == nil {
				st = 10 * time.Second
			}
			sc, _ = env.ServerSide(i, st)
		}
		stop := func() {
			if conn != nil {
				conn.Close()
			}
			if sc != nil {
				sc.Conn.Close()
			}
			mark("stopping client")
			done := make(chan struct{})
			go func() { cl.Stop(); close(done) }()
			select {
			case <-done:
			case <-time.After(1500 * time.Millisecond):
			}
		}
		what := fmt.Sprintf("op %d: a new client from %v presenting user %q with password variant %d (registered now: %v, live connections of that user: %d, udp=%v)", i, ips[op.IP], name, op.Variant, expect, liveOf[op.User], c.UDP)
		if !expect {
			if derr == nil || sc != nil || env.Accepts() > before {
				stop()
				o.Failf("stale-credential-accepted", "%s was served: dial error %v, proxy connections accepted by the application %d -> %d; the credential is not in the user list whose reload had completed", what, derr, before, env.Accepts())
				return
			}
			stop()
			continue
		}
		if derr != nil || sc == nil {
			stop()
			o.Failf("registered-credential-refused", "%s was not served within %v: dial error %v", what, wait, derr)
			return
		}
		if sc.User != name {
			stop()
			o.Failf("wrong-user", "%s was attributed to user %q", what, sc.User)
			return
		}
		// the connection works
		msg := []byte(fmt.Sprintf("hello-%d-%d", i, c.Salt))
		conn.Write(msg)
		buf := make([]byte, len(msg))
		sc.Conn.SetReadDeadline(time.Now().Add(10 * time.Second))
		got := 0
		for got < len(buf) {
			n, err := sc.Conn.Read(buf[got:])
			got += n
			if err != nil {
				break
			}
		}
		if string(buf[:got]) != string(msg) {
			stop()
			o.Failf("data", "%s: the server application read %q, the client wrote %q", what, buf[:got], msg)
			return
		}
		if op.Keep {
			kept = append(kept, stop)
			liveOf[op.User]++
			if liveIP[op.User] == nil {
				liveIP[op.User] = map[int]bool{}
			}
			liveIP[op.User][op.IP] = true
		} else {
			stop()
		}
	}
	o.NonTrivial = staleWithLive
	o.Label("udp=%v", c.UDP)
	o.Label("reloaded=%v", reloaded)
	o.Label("staleCredentialWhileItsUserHasLiveConnection=%v", staleWithLive)
	o.Label("...fromTheSameAddress=%v", sameIPLive)
	o.Label("mandatory=%v", c.Mandatory)
	return
}

func TestC07Reload(t *testing.T) {
	pbt.Run(t, "C07", "reload-e2e", gen, prop)
}
