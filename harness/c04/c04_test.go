// C04 — tampering with bytes on the wire never changes what the application
// reads. A field-addressed middlebox parses the live traffic with refproto and
// applies one mutation where the addressed field goes by.
// See DESIGN.md section 3.4.
package c04

import (
	"fmt"
	"sync"
	"testing"
	"time"

	"pgregory.net/rapid"

	"verif/harness/e2e"
	"verif/harness/pbt"
	"verif/harness/refproto"
	"verif/harness/simnet"
)

type Mutation struct {
	Dir    int `json:"dir"`   // 0 client->server, 1 server->client
	Seg    int `json:"seg"`   // index of the segment (TCP, per link direction) / datagram with payload (UDP, per direction)
	Field  int `json:"field"` // 0 nonce, 1 encrypted metadata, 2 metadata tag, 3 padding 1, 4 body, 5 body tag, 6 padding 2, 7 segment boundary
	Off    int `json:"off"`
	Kind   int `json:"kind"` // 0 bit flip, 1 byte substitution, 2 insert N, 3 delete N, 4 truncate here, 5 swap with next, 6 replay an earlier segment, 7 splice a segment of another connection, 8 reflect (authentic bytes of the opposite direction of the same connection)
	N      int `json:"n"`
	Repeat int `json:"repeat"` // UDP: apply to the first Repeat transmissions of the addressed identity (1..3)
}

type Case struct {
	Cfg   e2e.Config     `json:"cfg"`
	Progs []e2e.SessProg `json:"progs"`
	Mut   Mutation       `json:"mut"`
	Salt  uint64         `json:"salt"`
}

var fieldNames = []string{"nonce", "enc-meta", "meta-tag", "pad1", "body", "body-tag", "pad2", "boundary"}
var kindNames = []string{"bitflip", "substitute", "insert", "delete", "truncate", "swap", "replay", "splice", "reflect"}

func genCase(t *rapid.T) Case {
	var c Case
	c.Salt = rapid.Uint64().Draw(t, "salt")
	c.Cfg.UDP = rapid.Bool().Draw(t, "udp")
	c.Cfg.NoWait = rapid.IntRange(0, 3).Draw(t, "noWait") == 0
	c.Cfg.Multiplex = rapid.SampledFrom([]int{0, 1, 4}).Draw(t, "multiplex")
	c.Cfg.ClientPattern = e2e.GenPattern(t, "cp", 1)
	c.Cfg.ServerPattern = e2e.GenPattern(t, "sp", 1)
	nSess := rapid.SampledFrom([]int{1, 1, 2}).Draw(t, "nSess")
	for i := 0; i < nSess; i++ {
		var p e2e.SessProg
		// at least three segments per direction
		for j := 0; j < 3+rapid.IntRange(0, 2).Draw(t, "extra"); j++ {
			p.Up.Writes = append(p.Up.Writes, rapid.SampledFrom([]int{1, 7, 100, 1200, 1500, 4000}).Draw(t, "up"))
			p.Down.Writes = append(p.Down.Writes, rapid.SampledFrom([]int{1, 7, 100, 1200, 1500, 4000}).Draw(t, "down"))
		}
		c.Progs = append(c.Progs, p)
	}
	c.Mut = Mutation{
		Dir:    rapid.IntRange(0, 1).Draw(t, "dir"),
		Seg:    rapid.SampledFrom([]int{0, 0, 0, 1, 1, 2, 3, 4, 5, 6, 7}).Draw(t, "seg"), // segment 0 of a direction is the handshake
		Field:  rapid.IntRange(0, 7).Draw(t, "field"),
		Off:    rapid.IntRange(0, 5000).Draw(t, "off"),
		Kind:   rapid.SampledFrom([]int{0, 1, 2, 3, 4, 5, 5, 6, 6, 6, 7, 8, 8}).Draw(t, "kind"),
		N:      rapid.SampledFrom([]int{1, 2, 16, 100}).Draw(t, "n"),
		Repeat: rapid.IntRange(1, 3).Draw(t, "repeat"),
	}
	return c
}

// fieldRange returns the byte range of a field inside the raw segment.
func fieldRange(seg *refproto.Segment, rawLen int, field int) (a, b int, name string) {
	e := seg.Ext
	base := e.Start
	r := [][2]int{{0, e.NonceEnd - base}, {e.NonceEnd - base, e.MetaEnd - base - refproto.TagLen}, {e.MetaEnd - base - refproto.TagLen, e.MetaEnd - base},
		{e.MetaEnd - base, e.Pad1End - base}, {e.Pad1End - base, e.BodyEnd - base}, {e.BodyEnd - base, e.TagEnd - base}, {e.TagEnd - base, e.End - base}, {rawLen, rawLen}}
	for k := 0; k < 8; k++ {
		f := (field + k) % 8
		if f == 7 || r[f][1] > r[f][0] {
			return r[f][0], r[f][1], fieldNames[f]
		}
	}
	return 0, rawLen, "segment"
}

// mutate applies an in-place style mutation to one raw segment/datagram.
func mutate(raw []byte, seg *refproto.Segment, m Mutation) (out []byte, field string, structural bool) {
	a, b, name := fieldRange(seg, len(raw), m.Field)
	pos := a
	if b > a {
		pos = a + m.Off%(b-a)
	}
	out = append([]byte(nil), raw...)
	switch m.Kind {
	case 0:
		if pos >= len(out) {
			pos = len(out) - 1
		}
		out[pos] ^= 1 << uint(m.Off%8)
	case 1:
		if pos >= len(out) {
			pos = len(out) - 1
		}
		out[pos] ^= 0xA5
	case 2:
		ins := make([]byte, m.N)
		e2e.PRFFill(uint64(m.Off), 0, ins)
		out = append(out[:pos], append(ins, out[pos:]...)...)
		structural = true
	case 3:
		n := m.N
		if pos+n > len(out) {
			n = len(out) - pos
		}
		if n <= 0 {
			pos, n = len(out)-1, 1
		}
		out = append(out[:pos], out[pos+n:]...)
		structural = true
	}
	return out, name, structural
}

// tcpTamper is the middlebox on one direction of one TCP link.
type tcpTamper struct {
	mu         sync.Mutex
	dec        *refproto.StreamDecoder
	pending    []byte
	idx        int
	mut        Mutation
	active     bool
	applied    bool
	truncated  bool
	held       []byte
	earlier    [][]byte
	shared     *sharedState
	link       int
	dir        int
	note       string
	hitField   string
	hitPay     bool
	structural bool
}

type sharedState struct {
	mu      sync.Mutex
	samples map[int][]byte      // a raw payload-carrying segment per link id, for splicing
	byDir   map[[2]int][][]byte // raw payload-carrying segments per (link id, direction), for reflection
}

func (t *tcpTamper) Filter(p []byte) []byte {
	t.mu.Lock()
	defer t.mu.Unlock()
	if t.truncated {
		return nil
	}
	t.pending = append(t.pending, p...)
	var out []byte
	for len(t.pending) > 0 {
		seg, n, err := t.dec.Next(t.pending)
		if err == refproto.ErrNeedMore {
			break
		}
		if err != nil {
			out = append(out, t.pending...)
			t.pending = nil
			break
		}
		raw := append([]byte(nil), t.pending[:n]...)
		t.pending = t.pending[n:]
		out = append(out, t.process(seg, raw)...)
		if t.truncated {
			t.pending = nil
			break
		}
	}
	return out
}

func (t *tcpTamper) Close() []byte {
	t.mu.Lock()
	defer t.mu.Unlock()
	if t.truncated {
		return nil
	}
	out := append(t.held, t.pending...)
	t.held, t.pending = nil, nil
	return out
}

func (t *tcpTamper) process(seg *refproto.Segment, raw []byte) []byte {
	i := t.idx
	t.idx++
	if len(seg.Payload) > 0 && t.shared != nil {
		t.shared.mu.Lock()
		if _, ok := t.shared.samples[t.linkID()]; !ok {
			t.shared.samples[t.linkID()] = raw
		}
		if k := [2]int{t.link, t.dir}; len(t.shared.byDir[k]) < 8 {
			t.shared.byDir[k] = append(t.shared.byDir[k], raw)
		}
		t.shared.mu.Unlock()
	}
	if t.held != nil {
		// second half of a swap: emit this segment first, then the held one
		out := append(append([]byte(nil), raw...), t.held...)
		t.held = nil
		t.earlier = append(t.earlier, raw)
		return out
	}
	if !t.active || t.applied || i != t.mut.Seg {
		t.earlier = append(t.earlier, raw)
		return raw
	}
	t.applied = true
	t.hitPay = len(seg.Payload) > 0
	m := t.mut
	switch m.Kind {
	case 0, 1, 2, 3:
		out, field, structural := mutate(raw, seg, m)
		t.hitField, t.structural = field, structural
		t.note = fmt.Sprintf("%s in %s of segment %d (type %d)", kindNames[m.Kind], field, i, seg.Meta.Proto)
		return out
	case 4:
		a, b, field := fieldRange(seg, len(raw), m.Field)
		pos := a
		if b > a {
			pos = a + m.Off%(b-a)
		}
		t.truncated = true
		t.hitField, t.structural = field, true
		t.note = fmt.Sprintf("truncate inside %s of segment %d", field, i)
		return raw[:pos]
	case 5:
		t.held = raw
		t.hitField, t.structural = "segment", true
		t.note = fmt.Sprintf("swap segment %d with the next", i)
		return nil
	case 6:
		t.hitField, t.structural = "segment", true
		if len(t.earlier) == 0 {
			t.note = fmt.Sprintf("replay segment %d right after itself", i)
			return append(append([]byte(nil), raw...), raw...)
		}
		e := t.earlier[m.Off%len(t.earlier)]
		t.note = fmt.Sprintf("replay an earlier segment after segment %d", i)
		return append(append([]byte(nil), raw...), e...)
	default:
		t.hitField, t.structural = "segment", true
		var other []byte
		if t.shared != nil {
			t.shared.mu.Lock()
			for id, s := range t.shared.samples {
				if id != t.linkID() {
					other = s
				}
			}
			t.shared.mu.Unlock()
		}
		if other == nil {
			other = raw
		}
		t.note = fmt.Sprintf("splice a segment of another connection after segment %d", i)
		return append(append([]byte(nil), raw...), other...)
	}
}

func (t *tcpTamper) linkID() int { return t.link }

func prop(c Case) (o pbt.Outcome) {
	tStart := time.Now()
	keys, _ := e2e.KeysFor(e2e.DefaultUsers, tStart)
	var tampers []*tcpTamper
	var tmu sync.Mutex
	shared := &sharedState{samples: map[int][]byte{}, byDir: map[[2]int][][]byte{}}
	sn := simnet.NewStreamNet(simnet.StreamOpts{NewFilter: func(linkID, dir int) simnet.StreamFilter {
		t := &tcpTamper{dec: refproto.NewStreamDecoder(keys), mut: c.Mut, active: dir == c.Mut.Dir && linkID == 0, shared: shared, link: linkID, dir: dir}
		tmu.Lock()
		tampers = append(tampers, t)
		tmu.Unlock()
		return t
	}})
	pn := simnet.NewPacketNet()
	// UDP middlebox
	var umu sync.Mutex
	var unote, ufield string
	uhitPay, ustructural := false, false
	applied := 0
	if c.Cfg.UDP {
		type ident struct {
			sid, seq uint32
			proto    uint8
		}
		idx := 0
		var target *ident
		seen := map[ident]int{}
		var earlier [][]byte
		pn.SetFault(func(d *simnet.Datagram) simnet.Fate {
			fromClient := d.From.Port != 7000
			dir := 1
			if fromClient {
				dir = 0
			}
			seg, err := refproto.DecodeDatagram(d.Data, keys)
			if err != nil {
				return simnet.Fate{}
			}
			umu.Lock()
			defer umu.Unlock()
			// targets are the sequenced segments of the direction: data, and the
			// session segments (open request / response, close) with or without
			// payload; pure acknowledgements are not addressed
			untargeted := len(seg.Payload) == 0 && !refproto.IsSession(seg.Meta.Proto)
			if c.Mut.Kind == 8 {
				untargeted = len(seg.Payload) == 0
			}
			if dir != c.Mut.Dir || untargeted {
				if dir == c.Mut.Dir {
					earlier = append(earlier, d.Data)
				}
				if c.Mut.Kind == 8 && dir != c.Mut.Dir && len(seg.Payload) > 0 && refproto.IsData(seg.Meta.Proto) && (dir == 0 || seg.Meta.Seq >= 2) {
					// the man in the middle holds the genuine data of the other
					// direction back a little (not the SOCKS5 response, which the client
					// waits for before it sends), so that the reflected datagrams carry
					// the sequence numbers their receiver is waiting for
					return simnet.Fate{Delay: 30 * time.Millisecond}
				}
				return simnet.Fate{}
			}
			if c.Mut.Kind == 8 && !refproto.IsData(seg.Meta.Proto) {
				// a reflected session segment is refused by its type on any tree
				return simnet.Fate{}
			}
			id := ident{seg.Meta.SessionID, seg.Meta.Seq, seg.Meta.Proto}
			seen[id]++
			if target == nil {
				if seen[id] == 1 {
					if idx == c.Mut.Seg%4 {
						target = &id
					}
					idx++
				}
			}
			earlier = append(earlier, d.Data)
			if target == nil || (*target != id && c.Mut.Kind != 8) {
				return simnet.Fate{}
			}
			if c.Mut.Kind == 8 {
				// reflect: this and every later payload datagram of the direction (at
				// most 12) is also delivered back to its sender, byte for byte
				if applied >= 12 {
					return simnet.Fate{}
				}
				applied++
				uhitPay = true
				ufield, ustructural = "datagram", true
				unote = fmt.Sprintf("reflect: datagrams from seq %d on are also delivered back to their sender", target.seq)
				return simnet.Fate{Reflect: true}
			}
			// handshake-phase datagrams may be hit once only (see C02: fairness)
			limit := c.Mut.Repeat
			if seg.Meta.Seq <= 2 {
				limit = 1
			}
			if seen[id] > limit {
				return simnet.Fate{}
			}
			applied++
			uhitPay = true
			switch c.Mut.Kind {
			case 0, 1, 2, 3:
				out, field, structural := mutate(d.Data, seg, c.Mut)
				ufield, ustructural = field, structural
				unote = fmt.Sprintf("%s in %s of datagram seq %d (type %d), transmission %d", kindNames[c.Mut.Kind], field, seg.Meta.Seq, seg.Meta.Proto, seen[id])
				if len(out) > 1500 {
					out = out[:1500]
				}
				return simnet.Fate{Replace: out}
			case 4:
				a, b, field := fieldRange(seg, len(d.Data), c.Mut.Field)
				pos := a
				if b > a {
					pos = a + c.Mut.Off%(b-a)
				}
				ufield, ustructural = field, true
				unote = fmt.Sprintf("truncate datagram seq %d inside %s", seg.Meta.Seq, field)
				return simnet.Fate{Replace: append([]byte(nil), d.Data[:pos]...)}
			case 5:
				ufield, ustructural = "datagram", true
				unote = fmt.Sprintf("delay datagram seq %d behind the following ones", seg.Meta.Seq)
				return simnet.Fate{Delay: 30 * time.Millisecond}
			case 6:
				ufield, ustructural = "datagram", true
				unote = fmt.Sprintf("replay datagram seq %d three times", seg.Meta.Seq)
				return simnet.Fate{Dup: 3, DupGap: 3 * time.Millisecond}
			default:
				// splice: the head of this datagram with the tail of an earlier one
				ufield, ustructural = "datagram", true
				other := earlier[c.Mut.Off%len(earlier)]
				cut := refproto.HeaderLen
				if cut > len(other) {
					cut = len(other)
				}
				sp := append(append([]byte(nil), d.Data[:refproto.HeaderLen]...), other[cut:]...)
				unote = fmt.Sprintf("splice: header of datagram seq %d with the remainder of an earlier datagram", seg.Meta.Seq)
				return simnet.Fate{Replace: sp}
			}
		})
	}
	env, err := e2e.Start(c.Cfg, sn, pn)
	if err != nil {
		o.Failf("start", "valid configuration did not start: %v", err)
		return
	}
	defer env.StopBounded(3 * time.Second)
	stall, wall := 4*time.Second, 20*time.Second
	if c.Cfg.UDP {
		stall, wall = 30*time.Second, 60*time.Second
	}
	res := e2e.RunTransfer(env, c.Progs, e2e.TransferOpts{Salt: c.Salt, StallAfter: stall, MaxWall: wall, TailCheck: 5 * time.Millisecond})
	o.Obs = res

	var note, field string
	hitPay, structural, did := false, false, false
	if c.Cfg.UDP {
		umu.Lock()
		note, field, hitPay, structural, did = unote, ufield, uhitPay, ustructural, applied > 0
		umu.Unlock()
	} else {
		tmu.Lock()
		for _, t := range tampers {
			t.mu.Lock()
			if t.applied {
				note, field, hitPay, structural, did = t.note, t.hitField, t.hitPay, t.structural, true
			}
			t.mu.Unlock()
		}
		tmu.Unlock()
	}
	paddingOnly := (field == "pad1" || field == "pad2") && !structural
	o.NonTrivial = did && hitPay && !paddingOnly || did && structural
	o.Label("udp=%v", c.Cfg.UDP)
	o.Label("applied=%v", did)
	if did {
		o.Label("kind=%s", kindNames[c.Mut.Kind])
		o.Label("field=%s", field)
	}
	// The application never reads a byte that differs from what was written
	// at that position (both directions, every session).
	for i, s := range res.Sessions {
		for d, dr := range []e2e.DirResult{s.Up, s.Down} {
			name := []string{"client->server", "server->client"}[d]
			if dr.Mismatch != "" {
				o.Failf("data", "after [%s]: session %d %s: %s", note, i, name, dr.Mismatch)
				return
			}
			if dr.Extra != "" {
				o.Failf("data", "after [%s]: session %d %s: %s", note, i, name, dr.Extra)
				return
			}
		}
	}
	if c.Cfg.UDP && c.Mut.Kind == 8 {
		// reflection adds authentic datagrams of the other direction; the
		// property's claim for it is the safety clause above (mieru ends the
		// session on a wrong-direction segment, which the property allows)
	} else if c.Cfg.UDP {
		// a modified datagram is discarded as if lost and the stream still completes intact
		for i, s := range res.Sessions {
			if s.OpenErr != "" {
				o.Failf("udp-abandoned", "after [%s]: session %d did not open: %s", note, i, s.OpenErr)
				return
			}
			for d, dr := range []e2e.DirResult{s.Up, s.Down} {
				name := []string{"client->server", "server->client"}[d]
				if dr.ReadErr != "" || dr.WriteErr != "" {
					o.Failf("udp-abandoned", "after [%s]: session %d %s did not survive the modified datagram: %s %s", note, i, name, dr.ReadErr, dr.WriteErr)
					return
				}
			}
		}
		if res.Stalled {
			o.Failf("udp-stall", "after [%s]: the transfer stalled", note)
			return
		}
		for i, s := range res.Sessions {
			if !(s.Up.DoneReading && s.Down.DoneReading) {
				o.Inconclusive = fmt.Sprintf("session %d incomplete at the wall budget", i)
			}
		}
	} else if paddingOnly || !did {
		// a change confined to unauthenticated padding has no effect at all
		for i, s := range res.Sessions {
			if s.OpenErr != "" || !(s.Up.DoneReading && s.Down.DoneReading) {
				if res.Stalled || s.OpenErr != "" || s.Up.ReadErr != "" || s.Down.ReadErr != "" {
					o.Label("padding-mutation-broke-connection")
					_ = i
				}
			}
		}
	}
	return
}

func TestC04(t *testing.T) {
	pbt.Run(t, "C04", "tamper", genCase, prop)
}
