package udprun

import (
	"fmt"

	"verif/harness/e2e"
	"verif/harness/pbt"
)

// Verdict is the C02 oracle over a finished run: stream model per session and
// direction, no abandonment and no stall under a fair plan; a run still
// progressing at the end of its wall budget is inconclusive.
func Verdict(c Case, res *Result) (o pbt.Outcome) {
	if res.StartErr != "" {
		o.Failf("start", "valid configuration did not start: %s", res.StartErr)
		return
	}
	tr := res.Transfer
	o.Obs = map[string]any{"transfer": tr, "wire": res.Describe()}
	retrans := res.Retransmissions()
	o.NonTrivial = res.DropsData+res.Dups+res.Delays > 0 && retrans > 0
	o.Label("sessions=%d", len(c.Progs))
	o.Label("drops>0=%v", res.Drops > 0)
	o.Label("rawClient=%v", c.Cfg.RawClient)
	o.Label("closedWindow=%v", c.ClosedWindow)
	o.Label("dups>0=%v", res.Dups > 0)
	o.Label("delays>0=%v", res.Delays > 0)
	o.Label("retrans>0=%v", retrans > 0)
	o.Label("heavy=%v", c.Heavy)
	o.Label("le=%v", c.Cfg.ClientPattern.LowEntropy())
	if res.Overflow > 0 {
		o.Label("queue-overflow")
	}
	for i, s := range tr.Sessions {
		if s.OpenErr != "" {
			o.Failf("open", "session %d failed to open although the fault plan is fair (%s): %s", i, res.Describe(), s.OpenErr)
			return
		}
		for d, dr := range []e2e.DirResult{s.Up, s.Down} {
			name := []string{"client->server", "server->client"}[d]
			if dr.Mismatch != "" {
				o.Failf("data", "session %d %s: %s (%s)", i, name, dr.Mismatch, res.Describe())
				return
			}
			if dr.Extra != "" {
				o.Failf("data", "session %d %s: %s (%s)", i, name, dr.Extra, res.Describe())
				return
			}
			if dr.ShortWrite != "" {
				o.Failf("shortwrite", "session %d %s: %s", i, name, dr.ShortWrite)
				return
			}
		}
	}
	for i, s := range tr.Sessions {
		for d, dr := range []e2e.DirResult{s.Up, s.Down} {
			name := []string{"client->server", "server->client"}[d]
			if dr.WriteErr != "" || dr.ReadErr != "" {
				o.Failf("abandoned", "session %d %s: both ends keep the connection open and the fault plan is fair, yet: %s %s (%s)", i, name, dr.WriteErr, dr.ReadErr, res.Describe())
				return
			}
		}
	}
	if tr.Stalled {
		o.Failf("stall", "no byte reached any application for 45 s while the network kept delivering (%s); %d bytes moved", res.Describe(), tr.Progress)
		return
	}
	for i, s := range tr.Sessions {
		if !(s.Up.DoneReading && s.Up.DoneWriting && s.Down.DoneReading && s.Down.DoneWriting) {
			o.Inconclusive = fmt.Sprintf("session %d still progressing at the end of the wall budget (%s)", i, res.Describe())
			return
		}
	}
	return
}
