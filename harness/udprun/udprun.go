// Package udprun runs generated transfers over the UDP transport on a faulty
// simulated network and returns everything the UDP properties need: the
// application-level result (C02, C03), the decoded wire log with its total
// order of send/deliver events (C13), and datagram sizes (C14).
package udprun

import (
	"fmt"
	"time"

	"pgregory.net/rapid"

	"verif/harness/e2e"
	"verif/harness/pbt"
	"verif/harness/refproto"
	"verif/harness/simnet"
)

// Rule is one semantic fault rule over decoded datagrams.
type Rule struct {
	Dir    int    `json:"dir"`          // 0 client->server, 1 server->client
	Match  string `json:"match"`        // openreq, openresp, data, ack, close, any
	Seq    int    `json:"seq"`          // -1 any, otherwise the segment's sequence number
	From   int    `json:"from"`         // applies to transmissions From..To (1-based) of the matching identity
	To     int    `json:"to"`           //
	Action int    `json:"act"`          // 0 drop, 1 duplicate, 2 delay
	Delay  int    `json:"ms,omitempty"` // delay / duplicate gap in ms
}

// Plan is a fault plan. All plans are fair: at most MaxDrops drops per
// segment identity and MaxAckRun consecutive lost acks per direction.
type Plan struct {
	Rules     []Rule `json:"rules,omitempty"`
	LossC2S   int    `json:"lossC2S,omitempty"` // background loss, per mille
	LossS2C   int    `json:"lossS2C,omitempty"`
	MaxDrops  int    `json:"maxDrops"`
	MaxAckRun int    `json:"maxAckRun"`
	Seed      uint64 `json:"seed"`
}

// Case is one UDP run.
type Case struct {
	Cfg   e2e.Config     `json:"cfg"`
	Progs []e2e.SessProg `json:"progs"`
	Plan  Plan           `json:"plan"`
	Salt  uint64         `json:"salt"`
	Heavy bool           `json:"heavy,omitempty"`
	// Pressure marks C14's padding-pressure class (labelling only).
	Pressure bool `json:"pressure,omitempty"`
	// ClosedWindow marks the closed-receive-window class (labelling only).
	ClosedWindow bool `json:"closedWindow,omitempty"`
}

var mtus = []int{0, 1280, 1281, 1399, 1400, 1499, 1500}
var sizes = []int{0, 1, 2, 5, 7, 8, 100, 1023, 1024, 1025, 1200, 1232, 1300, 1328, 1400, 1428, 1500, 2656, 4096, 10000, 32768, 40000, 65536}

// Gen draws a case. classes: see the switch on planClass.
func Gen(t *rapid.T) Case {
	var c Case
	c.Salt = rapid.Uint64().Draw(t, "salt")
	c.Cfg.UDP = true
	c.Cfg.NoWait = rapid.Bool().Draw(t, "noWait")
	// one case in three: the application uses the session layer directly and
	// re-uses its write buffers (see e2e.Config.RawClient); it writes first
	if rapid.IntRange(0, 2).Draw(t, "rawClient") == 0 {
		c.Cfg.RawClient, c.Cfg.NoWait = true, true
	}
	c.Cfg.Multiplex = rapid.IntRange(0, 4).Draw(t, "multiplex")
	c.Cfg.ClientMTU = rapid.SampledFrom(mtus).Draw(t, "clientMTU")
	c.Cfg.ServerMTU = rapid.SampledFrom(mtus).Draw(t, "serverMTU")
	if rapid.IntRange(0, 4).Draw(t, "mtuUniform") == 0 {
		c.Cfg.ClientMTU = rapid.IntRange(1280, 1500).Draw(t, "cmtu")
		c.Cfg.ServerMTU = rapid.IntRange(1280, 1500).Draw(t, "smtu")
	}
	c.Cfg.ClientPattern = e2e.GenPattern(t, "cp", -1)
	c.Cfg.ServerPattern = e2e.GenPattern(t, "sp", -1)
	nSess := rapid.SampledFrom([]int{1, 1, 2, 3, 4}).Draw(t, "nSess")
	c.Heavy = pbt.Thorough() && rapid.IntRange(0, 4).Draw(t, "heavy") == 0
	budget := 70000
	if pbt.Thorough() {
		budget = 300000
	}
	planClass := rapid.IntRange(0, 5).Draw(t, "planClass")
	if c.Heavy {
		budget = 50000
	}
	budget /= nSess
	for i := 0; i < nSess; i++ {
		var p e2e.SessProg
		gw := func(label string) []int {
			k := rapid.IntRange(0, 5).Draw(t, label+".n")
			var ws []int
			tot := 0
			for j := 0; j < k; j++ {
				w := rapid.SampledFrom(sizes).Draw(t, label+".sz")
				if tot+w > budget {
					w = budget - tot
					if w < 0 {
						w = 0
					}
				}
				tot += w
				ws = append(ws, w)
			}
			return ws
		}
		p.Up.Writes = gw("up")
		p.Down.Writes = gw("down")
		if c.Cfg.NoWait {
			req := e2e.Socks5RequestLen(i)
			first := rapid.SampledFrom([]int{0, 1, 1024 - req - 1, 1024 - req, 1024 - req + 1, 1500}).Draw(t, "first")
			if len(p.Up.Writes) == 0 {
				p.Up.Writes = []int{first}
			} else if rapid.Bool().Draw(t, "useFirst") {
				p.Up.Writes[0] = first
			}
		}
		p.Up.DelayMs = rapid.SampledFrom([]int{0, 0, 1, 10}).Draw(t, "delayUp")
		p.Down.DelayMs = rapid.SampledFrom([]int{0, 0, 1, 10}).Draw(t, "delayDown")
		nr := rapid.IntRange(0, 2).Draw(t, "nr")
		for j := 0; j < nr; j++ {
			p.Up.Reads = append(p.Up.Reads, rapid.SampledFrom([]int{1, 100, 1500, 32768}).Draw(t, "rsz"))
			p.Down.Reads = append(p.Down.Reads, rapid.SampledFrom([]int{1, 100, 1500, 32768}).Draw(t, "rsz"))
		}
		c.Progs = append(c.Progs, p)
	}
	// fault plan
	pl := Plan{MaxDrops: rapid.IntRange(1, pbt.Pick(2, 3)).Draw(t, "maxDrops"), MaxAckRun: rapid.IntRange(1, 4).Draw(t, "maxAckRun"), Seed: rapid.Uint64().Draw(t, "planSeed")}
	genRule := func() Rule {
		r := Rule{Dir: rapid.IntRange(0, 1).Draw(t, "rdir"), Seq: -1, From: 1, To: 1}
		r.Match = rapid.SampledFrom([]string{"openreq", "openresp", "data", "data", "data", "ack", "close", "any"}).Draw(t, "match")
		if r.Match == "openreq" {
			r.Dir = 0
		}
		if r.Match == "openresp" {
			r.Dir = 1
		}
		if r.Match == "data" {
			r.Seq = rapid.SampledFrom([]int{-1, 1, 2, 3, 5, 9, 20}).Draw(t, "rseq")
		}
		r.Action = rapid.SampledFrom([]int{0, 0, 0, 1, 2}).Draw(t, "ract")
		if !pbt.Thorough() && r.Action == 0 && (r.Match == "any" || (r.Match == "data" && r.Seq < 0)) && rapid.IntRange(0, 3).Draw(t, "blanket") != 0 {
			// blanket drop rules make every segment wait for a backed-off
			// retransmission (seconds each): rare in the quick tier
			r.Match = "data"
			r.Seq = rapid.SampledFrom([]int{1, 2, 3, 5, 9}).Draw(t, "rseq2")
		}
		r.From = rapid.SampledFrom([]int{1, 1, 1, 2}).Draw(t, "rfrom")
		r.To = r.From + rapid.SampledFrom([]int{0, 0, 1, 2}).Draw(t, "rspan")
		if r.Action != 0 {
			r.Delay = rapid.SampledFrom([]int{1, 5, 30, 120, 400}).Draw(t, "rdelay")
		}
		if (r.Match == "openreq" || r.Match == "openresp") && r.Action == 0 && !pbt.Thorough() {
			// a lost handshake datagram costs seconds: at most two in quick
			if r.To > r.From+1 {
				r.To = r.From + 1
			}
		}
		return r
	}
	switch planClass {
	case 0: // perfect network
	case 1, 2: // targeted rules
		n := rapid.IntRange(1, 4).Draw(t, "nRules")
		for i := 0; i < n; i++ {
			pl.Rules = append(pl.Rules, genRule())
		}
	case 3: // background loss only
		pl.LossC2S = rapid.SampledFrom([]int{0, 10, 50}).Draw(t, "lossC2S")
		pl.LossS2C = rapid.SampledFrom([]int{0, 10, 50}).Draw(t, "lossS2C")
	default: // both
		n := rapid.IntRange(1, 3).Draw(t, "nRules")
		for i := 0; i < n; i++ {
			pl.Rules = append(pl.Rules, genRule())
		}
		pl.LossC2S = rapid.SampledFrom([]int{0, 10, 50}).Draw(t, "lossC2S")
		pl.LossS2C = rapid.SampledFrom([]int{0, 10, 50}).Draw(t, "lossS2C")
	}
	if c.Heavy {
		pl.LossC2S = rapid.SampledFrom([]int{150, 300}).Draw(t, "heavyC2S")
		pl.LossS2C = rapid.SampledFrom([]int{150, 300}).Draw(t, "heavyS2C")
		pl.MaxDrops = rapid.IntRange(3, 6).Draw(t, "heavyMaxDrops")
		pl.MaxAckRun = rapid.IntRange(3, 6).Draw(t, "heavyAckRun")
	}
	c.Plan = pl
	// closed receive window: more segments than a receive queue holds (4096)
	// towards an application that starts reading late, on a perfect network;
	// the sender has everything acknowledged and waits for the window to
	// reopen, which only the receiver's periodic acknowledgement tells it
	if !c.Heavy && rapid.IntRange(0, 39).Draw(t, "closedWindow") == 0 {
		n := rapid.IntRange(4300, 4800).Draw(t, "closedWindowWrites")
		ws := make([]int, n)
		for i := range ws {
			ws[i] = 1 + i%3
		}
		c.Progs = c.Progs[:1]
		d := &c.Progs[0].Down
		if rapid.Bool().Draw(t, "closedWindowUp") {
			d = &c.Progs[0].Up
		}
		d.Writes, d.Reads, d.ReadLag = ws, nil, rapid.SampledFrom([]int{3000, 6000}).Draw(t, "closedWindowLag")
		c.Plan = Plan{MaxDrops: 1, MaxAckRun: 1, Seed: pl.Seed}
		c.ClosedWindow = true
	}
	return c
}

// WireEvent is one datagram with its decoding and its fate.
type WireEvent struct {
	Idx        int
	FromClient bool
	Len        int
	Seg        *refproto.Segment // nil if undecodable
	Err        string
	Fate       simnet.Fate
	TxNo       int // transmission number of this identity (1-based); 0 for acks
}

// Result of a run.
type Result struct {
	Transfer   *e2e.RunResult
	Datagrams  []*e2e.DecodedDatagram
	Events     []simnet.Event
	ServerPort int
	ClientMTU  int
	ServerMTU  int
	Drops      int
	DropsData  int // drops of datagrams that carried new data or handshake
	Dups       int
	Delays     int
	Overflow   int
	StartErr   string
	StopInTime bool
	TStart     time.Time
	TEnd       time.Time
}

type identity struct {
	dir   int
	sid   uint32
	class string
	seq   uint32
}

func classOf(p uint8) string {
	switch {
	case p == refproto.OpenSessionRequest:
		return "openreq"
	case p == refproto.OpenSessionResponse:
		return "openresp"
	case refproto.IsData(p):
		return "data"
	case refproto.IsAck(p):
		return "ack"
	case p == refproto.CloseSessionRequest || p == refproto.CloseSessionResponse:
		return "close"
	}
	return "other"
}

func effMTU(m int) int {
	if m == 0 {
		return 1400
	}
	return m
}

// RunOpts tunes a run.
type RunOpts struct {
	StallAfter time.Duration
	MaxWall    time.Duration
	TailCheck  time.Duration
	// Hook, if set, is called with the environment after the transfer and
	// before Stop (C03 uses its own executor instead).
	ExtraFault func(d *simnet.Datagram, seg *refproto.Segment, fromClient bool) *simnet.Fate
}

// Run executes the case.
func Run(c Case, opts RunOpts) *Result {
	res := &Result{ServerPort: 7000, ClientMTU: effMTU(c.Cfg.ClientMTU), ServerMTU: effMTU(c.Cfg.ServerMTU), TStart: time.Now()}
	pn := simnet.NewPacketNet()
	users := c.Cfg.Users
	if len(users) == 0 {
		users = e2e.DefaultUsers
	}
	keys, _ := e2e.KeysFor(users, res.TStart)
	keysAt := refproto.RoundSlot(res.TStart.Unix())
	txCount := map[identity]int{}
	dropCount := map[identity]int{}
	hsDrops := map[uint32]int{} // handshake-phase datagrams lost per session (both directions)
	ackRun := [2]int{}
	pl := c.Plan
	prf := func(idx int) uint64 {
		x := pl.Seed + uint64(idx)*0x9E3779B97F4A7C15
		x ^= x >> 30
		x *= 0xbf58476d1ce4e5b9
		x ^= x >> 27
		x *= 0x94d049bb133111eb
		x ^= x >> 31
		return x
	}
	pn.SetFault(func(d *simnet.Datagram) simnet.Fate {
		if s := refproto.RoundSlot(time.Now().Unix()); s != keysAt {
			keys, _ = e2e.KeysFor(users, res.TStart, time.Now())
			keysAt = s
		}
		fromClient := d.From.Port != res.ServerPort
		dir := 1
		if fromClient {
			dir = 0
		}
		seg, err := refproto.DecodeDatagram(d.Data, keys)
		if err != nil {
			return simnet.Fate{Note: "undecodable"}
		}
		cls := classOf(seg.Meta.Proto)
		id := identity{dir: dir, sid: seg.Meta.SessionID, class: cls, seq: seg.Meta.Seq}
		if cls == "ack" {
			id.seq = 0
		}
		txCount[id]++
		n := txCount[id]
		if opts.ExtraFault != nil {
			if f := opts.ExtraFault(d, seg, fromClient); f != nil {
				return *f
			}
		}
		fate := simnet.Fate{}
		for _, r := range pl.Rules {
			if r.Dir != dir {
				continue
			}
			if r.Match != "any" && r.Match != cls {
				continue
			}
			if r.Seq >= 0 && uint32(r.Seq) != seg.Meta.Seq {
				continue
			}
			if n < r.From || n > r.To {
				continue
			}
			switch r.Action {
			case 0:
				fate.Drop = true
			case 1:
				fate.Dup = 1
				fate.DupGap = time.Duration(r.Delay) * time.Millisecond
			case 2:
				fate.Delay = time.Duration(r.Delay) * time.Millisecond
			}
			fate.Note = "rule:" + r.Match
			break
		}
		if !fate.Drop {
			loss := pl.LossC2S
			if dir == 1 {
				loss = pl.LossS2C
			}
			if loss > 0 && int(prf(d.Idx)%1000) < loss {
				fate.Drop = true
				fate.Note = "background"
			}
		}
		// fairness caps
		if fate.Drop {
			if cls == "ack" {
				if ackRun[dir] >= pl.MaxAckRun {
					fate.Drop = false
					fate.Note = "fairness: ack run"
				}
			} else if (cls == "openreq" || cls == "openresp" || seg.Meta.Seq <= 2) && (dropCount[id] >= 1 || hsDrops[seg.Meta.SessionID] >= 2) {
				// The client gives up on a session whose SOCKS5 response does not
				// arrive within 10 s, and before a sender has an RTT sample an
				// unanswered datagram is retransmitted after 3 s, 4.5 s, 6.75 s:
				// losing the same handshake-phase datagram (open request/response,
				// first data segments) twice is no longer a "fair share" - and neither
				// is losing three different ones of one session in a row (open request,
				// open response, the segment with the SOCKS5 response: 3 x 3 s).
				fate.Drop = false
				fate.Note = "fairness: handshake"
			} else if dropCount[id] >= pl.MaxDrops {
				fate.Drop = false
				fate.Note = "fairness: drops per identity"
			}
		}
		if cls == "ack" {
			if fate.Drop {
				ackRun[dir]++
			} else {
				ackRun[dir] = 0
			}
		}
		if fate.Drop {
			dropCount[id]++
			if cls == "openreq" || cls == "openresp" || seg.Meta.Seq <= 2 {
				hsDrops[seg.Meta.SessionID]++
			}
		}
		return fate
	})
	env, err := e2e.Start(c.Cfg, nil, pn)
	if err != nil {
		res.StartErr = err.Error()
		return res
	}
	if opts.StallAfter == 0 {
		opts.StallAfter = 40 * time.Second
	}
	if opts.MaxWall == 0 {
		opts.MaxWall = 90 * time.Second
	}
	res.Transfer = e2e.RunTransfer(env, c.Progs, e2e.TransferOpts{Salt: c.Salt, StallAfter: opts.StallAfter, MaxWall: opts.MaxWall, TailCheck: opts.TailCheck})
	res.StopInTime = env.StopBounded(3 * time.Second)
	res.TEnd = time.Now()
	dgrams, events := pn.Snapshot()
	res.Events = events
	res.Overflow = pn.Overflow()
	res.Datagrams = e2e.DecodeDatagrams(dgrams, res.ServerPort, users, res.TStart, res.TEnd)
	seen := map[identity]bool{}
	for _, d := range res.Datagrams {
		if d.D.Fate.Dup > 0 {
			res.Dups++
		}
		if d.D.Fate.Delay > 0 {
			res.Delays++
		}
		if d.Seg == nil {
			continue
		}
		cls := classOf(d.Seg.Meta.Proto)
		dir := 1
		if d.FromClient {
			dir = 0
		}
		id := identity{dir: dir, sid: d.Seg.Meta.SessionID, class: cls, seq: d.Seg.Meta.Seq}
		if d.D.Fate.Drop {
			res.Drops++
			if cls != "ack" && cls != "close" {
				res.DropsData++
			}
		}
		seen[id] = true
	}
	return res
}

// Retransmissions counts payload-bearing or handshake segments sent more than once.
func (r *Result) Retransmissions() int {
	type k struct {
		fromClient bool
		sid, seq   uint32
		cls        string
	}
	cnt := map[k]int{}
	n := 0
	for _, d := range r.Datagrams {
		if d.Seg == nil {
			continue
		}
		cls := classOf(d.Seg.Meta.Proto)
		if cls == "ack" || cls == "close" || cls == "other" {
			continue
		}
		key := k{d.FromClient, d.Seg.Meta.SessionID, d.Seg.Meta.Seq, cls}
		cnt[key]++
		if cnt[key] == 2 {
			n++
		}
	}
	return n
}

// Describe renders a short summary for messages.
func (r *Result) Describe() string {
	return fmt.Sprintf("datagrams=%d drops=%d (data/handshake %d) dups=%d delays=%d retransmitted identities=%d", len(r.Datagrams), r.Drops, r.DropsData, r.Dups, r.Delays, r.Retransmissions())
}
