// C08 (c) — segment timestamps and key slots at the real clock: a reference
// client opens a session against a real server with the metadata stamped k
// minutes away and the key derived for the instant now+delta.
package c08e2e

import (
	"net"
	"testing"
	"time"

	"pgregory.net/rapid"

	"verif/harness/e2e"
	"verif/harness/pbt"
	"verif/harness/refproto"
	"verif/harness/simnet"
)

type Case struct {
	UDP          bool   `json:"udp,omitempty"`
	MinuteOffset int    `json:"minuteOffset"` // stamp = current minute + offset
	KeyDeltaS    int    `json:"keyDeltaS"`    // key derived for now + delta seconds
	Nonce        []byte `json:"nonce"`
}

func genCase(t *rapid.T) Case {
	return Case{
		UDP:          rapid.Bool().Draw(t, "udp"),
		MinuteOffset: rapid.SampledFrom([]int{0, 0, 1, -1, 2, -2, 3, -4, 60, -1440}).Draw(t, "minuteOffset"),
		KeyDeltaS:    rapid.SampledFrom([]int{0, 0, 30, -30, 59, -59, 60, -60, 100, -100, 239, -239, 240, -240, 300, -300, 3600, -86400}).Draw(t, "keyDelta"),
		Nonce:        rapid.SliceOfN(rapid.Byte(), 24, 24).Draw(t, "nonce"),
	}
}

func prop(c Case) (o pbt.Outcome) {
	cfg := e2e.Config{UDP: c.UDP}
	sn := simnet.NewStreamNet(simnet.StreamOpts{})
	pn := simnet.NewPacketNet()
	env, err := e2e.StartServer(cfg, sn, pn)
	if err != nil {
		o.Failf("harness", "server start: %v", err)
		return
	}
	defer env.StopBounded(3 * time.Second)
	u := e2e.DefaultUsers[0]
	hp := refproto.HashedPassword(u.Password, u.Name)
	o.NonTrivial = c.MinuteOffset != 0 || c.KeyDeltaS != 0
	o.Label("udp=%v", c.UDP)

	classify := func(now time.Time) (mustAccept, mustReject bool) {
		absK := c.MinuteOffset
		if absK < 0 {
			absK = -absK
		}
		absD := c.KeyDeltaS
		if absD < 0 {
			absD = -absD
		}
		mustAccept = absK <= 1 && absD <= 60
		mustReject = absK >= 2 || absD >= 240
		return
	}
	before := time.Now()
	key := refproto.KeyAt(hp, before.Unix()+int64(c.KeyDeltaS))
	stamp := uint32(int64(before.Unix()/60) + int64(c.MinuteOffset))
	nonce := e2e.UniqueNonce(c.Nonce)
	refproto.SetUserHint(u.Name, nonce)
	req := []byte{5, 1, 0, 3, 7, 's', '0', '.', 't', 'e', 's', 't', 0, 80}
	open := refproto.SegSpec{Meta: refproto.Meta{Proto: refproto.OpenSessionRequest, Timestamp: stamp, SessionID: 4242, Seq: 0}, Payload: req, FixLengths: true}

	var replied bool
	if !c.UDP {
		conn, err := sn.DialContext(nil, "tcp", "10.0.0.1:7000")
		if err != nil {
			o.Failf("harness", "dial: %v", err)
			return
		}
		defer conn.Close()
		b, _ := refproto.NewStreamEncoder(key, nonce).Encode(open)
		conn.Write(b)
		go func() {
			buf := make([]byte, 1)
			conn.SetReadDeadline(time.Now().Add(3 * time.Second))
			if n, _ := conn.Read(buf); n > 0 {
				replied = true
			}
		}()
	} else {
		sock, _ := pn.Bind(net.IPv4(10, 0, 0, 9), 0)
		defer sock.Close()
		b, _ := refproto.EncodeDatagram(key, nonce, open)
		sock.WriteTo(b, &net.UDPAddr{IP: net.IPv4(10, 0, 0, 1), Port: 7000})
	}
	mustAccept, mustReject := classify(before)
	wait := 400 * time.Millisecond
	if mustAccept {
		wait = 10 * time.Second
	}
	_, aerr := env.ServerSide(0, wait)
	accepted := aerr == nil
	after := time.Now()
	// if the minute or the 120 s slot changed while the case ran, the
	// classification is ambiguous: skip
	if before.Unix()/60 != after.Unix()/60 || refproto.RoundSlot(before.Unix()) != refproto.RoundSlot(after.Unix()) {
		o.NonTrivial = false
		o.Label("clock-tick-skip")
		return
	}
	_ = replied
	switch {
	case mustAccept && !accepted:
		o.Failf("reject-valid", "a handshake stamped %+d minute(s) with a key derived for now%+ds was not accepted (udp=%v)", c.MinuteOffset, c.KeyDeltaS, c.UDP)
	case mustReject && accepted:
		o.Failf("accept-stale", "a handshake stamped %+d minute(s) with a key derived for now%+ds was accepted (udp=%v)", c.MinuteOffset, c.KeyDeltaS, c.UDP)
	}
	o.Label("accepted=%v", accepted)
	return
}

func TestC08Stamp(t *testing.T) {
	pbt.Run(t, "C08", "stamp", genCase, prop)
}
