// C10 — no input from the network can crash the process.
// (1) authenticated but hostile segments against a real server and a real
// client (this file); (2) unauthenticated input is C05's grammar; (3) SOCKS5
// layer byte strings: socks_test.go. See DESIGN.md section 3.10.
//
// mieru has no recover(): a panic in one of its goroutines kills this test
// process. The driver (../../check) notes the case being executed
// (VERIF_CURCASE) and turns a crash with mieru frames into a violation whose
// replay file carries that case.
package c10

import (
	"context"
	"fmt"
	"net"
	"testing"
	"time"

	"pgregory.net/rapid"

	"verif/harness/e2e"
	"verif/harness/pbt"
	"verif/harness/refproto"
	"verif/harness/simnet"
)

type HSeg struct {
	Proto    uint8  `json:"proto"`
	SidKind  int    `json:"sid"` // 0 zero, 1 own session, 2 the victim's live session, 3 unknown, 4 0xffffffff
	Seq      uint32 `json:"seq"`
	UnAck    uint32 `json:"unack"`
	Window   uint16 `json:"win"`
	Frag     uint8  `json:"frag"`
	Status   uint8  `json:"status"`
	Payload  int    `json:"payload"`
	Pad1     int    `json:"pad1"`
	Pad2     int    `json:"pad2"`
	LenDelta int    `json:"lenDelta"` // added to the payload length field (inconsistent lengths)
	PreDelta int    `json:"preDelta"` // added to the prefix length field
	SufDelta int    `json:"sufDelta"` // added to the suffix length field
	LenAbs   int    `json:"lenAbs,omitempty"` // > 0: the payload length field is this, whatever follows
	TsOff    int    `json:"tsOff"`    // minutes
	LEMode   uint8  `json:"leMode"`
	LEMask   uint32 `json:"leMask"`
	LERot    uint8  `json:"leRot"`
	LEExtra  int    `json:"leExtra"` // added to the extracted length field
	GapMs    int    `json:"gapMs"`
}

type HostileCase struct {
	UDP           bool   `json:"udp,omitempty"`
	AgainstClient bool   `json:"againstClient,omitempty"`
	OpenFirst     bool   `json:"openFirst,omitempty"` // the attacker opens a proper session of its own first
	Segs          []HSeg `json:"segs"`
	Salt          uint64 `json:"salt"`
	// Flood > 0 (UDP, against the server): the attacker opens a proper session
	// of its own, whose server-side application never reads, and sends that many
	// well-formed in-order one-byte data segments on it without regard for the
	// advertised receive window (4096 fill the session's receive queue)
	Flood int `json:"flood,omitempty"`
	// CutLast > 0 (TCP, against the server): after the hostile segments one more
	// well-formed data segment (40 bytes of padding, 100 of payload, 30 of
	// padding) is sent only up to a cut - 1: inside the encrypted metadata,
	// 2: right behind it, 3: inside padding 1, 4: inside the payload, 5: inside
	// the payload's tag, 6: inside padding 2 - and the connection ends there
	// (FIN, or reset when CutReset)
	CutLast  int  `json:"cutLast,omitempty"`
	CutReset bool `json:"cutReset,omitempty"`
}

var c10users = []e2e.UserSpec{{Name: "victim", Password: "victim-pw"}, {Name: "mallory", Password: "mallory-pw"}}

func genHSeg(t *rapid.T) HSeg {
	s := HSeg{
		Proto:   uint8(rapid.SampledFrom([]int{0, 1, 2, 3, 4, 5, 6, 7, 8, 9, 10, 11, 12, 13, 255, 6, 8, 4, 10}).Draw(t, "proto")),
		SidKind: rapid.SampledFrom([]int{0, 1, 1, 2, 2, 2, 3, 4}).Draw(t, "sidKind"),
		Seq:     rapid.SampledFrom([]uint32{0, 1, 2, 3, 100, 4095, 4096, 0x7fffffff, 0xffffffff}).Draw(t, "seq"),
		UnAck:   rapid.SampledFrom([]uint32{0, 1, 2, 100, 0xffffffff}).Draw(t, "unack"),
		Window:  uint16(rapid.SampledFrom([]int{0, 1, 16, 4096, 65535}).Draw(t, "win")),
		Frag:    uint8(rapid.SampledFrom([]int{0, 0, 1, 255}).Draw(t, "frag")),
		Status:  uint8(rapid.SampledFrom([]int{0, 1, 2, 255}).Draw(t, "status")),
		Payload: rapid.SampledFrom([]int{0, 0, 1, 8, 100, 1024, 1025, 1300}).Draw(t, "payload"),
		Pad1:    rapid.SampledFrom([]int{0, 0, 5, 255}).Draw(t, "pad1"),
		Pad2:    rapid.SampledFrom([]int{0, 0, 5, 255}).Draw(t, "pad2"),
		TsOff:   rapid.SampledFrom([]int{0, 0, 0, 0, 1, -1, 2, -100000}).Draw(t, "tsOff"),
		GapMs:   rapid.SampledFrom([]int{0, 0, 0, 1, 3}).Draw(t, "gap"),
	}
	if rapid.IntRange(0, 3).Draw(t, "inconsistent") == 0 {
		s.LenDelta = rapid.SampledFrom([]int{1, -1, 8, 1000, 60000}).Draw(t, "lenDelta")
	}
	if rapid.IntRange(0, 5).Draw(t, "lenAbs") == 0 {
		// the 16-bit length field at its ends: sums with the 16-byte tag wrap from 65520 on
		s.LenAbs = rapid.SampledFrom([]int{65535, 65534, 65521, 65520, 65519, 65504, 32768, 32767, 1025}).Draw(t, "lenAbsV")
	}
	if rapid.IntRange(0, 5).Draw(t, "padInconsistent") == 0 {
		s.PreDelta = rapid.SampledFrom([]int{1, -1, 200}).Draw(t, "preDelta")
		s.SufDelta = rapid.SampledFrom([]int{1, -1, 200}).Draw(t, "sufDelta")
	}
	if s.Proto == 10 || s.Proto == 11 || rapid.IntRange(0, 5).Draw(t, "leFields") == 0 {
		s.LEMode = uint8(rapid.SampledFrom([]int{0, 1, 2, 3, 4, 5, 255}).Draw(t, "leMode"))
		s.LEMask = rapid.SampledFrom([]uint32{0, 0xffffffff, 0x0000ffff, 0x000fffff, 0x00ffffff, 0x0fffffff, 0x0000fffe, 0x12345678}).Draw(t, "leMask")
		s.LERot = uint8(rapid.SampledFrom([]int{0, 1, 15, 16, 17, 240, 255}).Draw(t, "leRot"))
		s.LEExtra = rapid.SampledFrom([]int{0, 0, 1, -1, 40000}).Draw(t, "leExtra")
	}
	return s
}

func genHostile(t *rapid.T) HostileCase {
	c := HostileCase{UDP: rapid.Bool().Draw(t, "udp"), AgainstClient: rapid.IntRange(0, 2).Draw(t, "againstClient") == 0, OpenFirst: rapid.Bool().Draw(t, "openFirst"), Salt: rapid.Uint64().Draw(t, "salt")}
	n := rapid.IntRange(1, 30).Draw(t, "nSegs")
	for i := 0; i < n; i++ {
		c.Segs = append(c.Segs, genHSeg(t))
	}
	if !c.UDP && !c.AgainstClient && rapid.IntRange(0, 2).Draw(t, "cut") == 0 {
		c.CutLast = rapid.IntRange(1, 6).Draw(t, "cutLast")
		c.CutReset = rapid.Bool().Draw(t, "cutReset")
		if rapid.Bool().Draw(t, "cutOpenFirst") {
			c.OpenFirst = true
		}
		// most hostile sequences make the server drop the connection before the
		// cut segment would be read: mostly send it alone
		if k := rapid.SampledFrom([]int{0, 0, 0, 1, 2}).Draw(t, "cutAfter"); k < len(c.Segs) {
			c.Segs = c.Segs[:k]
		}
	}
	if c.UDP && !c.AgainstClient && rapid.IntRange(0, 7).Draw(t, "flood") == 0 {
		c.OpenFirst = true
		c.Flood = rapid.SampledFrom([]int{4100, 4360, 4700}).Draw(t, "floodN")
	}
	return c
}

// build turns a hostile description into a segment spec; lengths are first
// made consistent and then perturbed.
func build(h HSeg, own, victim uint32, salt uint64, i int, toClient bool) refproto.SegSpec {
	sid := map[int]uint32{0: 0, 1: own, 2: victim, 3: 0x1234abcd, 4: 0xffffffff}[h.SidKind]
	m := refproto.Meta{Proto: h.Proto, Timestamp: uint32(int64(time.Now().Unix()/60) + int64(h.TsOff)), SessionID: sid, Seq: h.Seq,
		UnAck: h.UnAck, Window: h.Window, Fragment: h.Frag, Status: h.Status, Byte1: h.LEMode, LEMask: h.LEMask, LERot: h.LERot}
	payload := make([]byte, h.Payload)
	e2e.PRFFill(salt+uint64(i), 0, payload)
	spec := refproto.SegSpec{Meta: m, Payload: payload, Pad1: make([]byte, h.Pad1), Pad2: make([]byte, h.Pad2)}
	// consistent lengths first (written by hand: FixLengths refuses nothing but we want control)
	spec.Meta.SuffixLen = uint8(h.Pad2)
	spec.Meta.PrefixLen = uint8(h.Pad1)
	spec.Meta.PayloadLen = uint16(h.Payload)
	spec.Meta.LEExtracted = uint16(h.Payload + h.LEExtra)
	isLE := h.Proto == 10 || h.Proto == 11
	if isLE {
		// a well-formed low-entropy body needs valid codec parameters; when they
		// are invalid the body is sent unencoded with whatever fields were drawn
		if l := refproto.LEEncodedLen(h.Payload, h.LEMode); l > 0 && refproto.LEValidRotation(h.LERot) && popcount(h.LEMask) == refproto.LESourceBytes(h.LEMode)*4 {
			spec.Meta.PayloadLen = uint16(l)
		} else {
			spec.Meta.Proto = h.Proto // keep the type; encode the body as plain bytes below
		}
	}
	spec.Meta.PayloadLen = uint16(int(spec.Meta.PayloadLen) + h.LenDelta)
	if h.LenAbs > 0 {
		spec.Meta.PayloadLen = uint16(h.LenAbs)
	}
	spec.Meta.PrefixLen = uint8(int(spec.Meta.PrefixLen) + h.PreDelta)
	spec.Meta.SuffixLen = uint8(int(spec.Meta.SuffixLen) + h.SufDelta)
	return spec
}

func popcount(x uint32) int {
	n := 0
	for ; x != 0; x &= x - 1 {
		n++
	}
	return n
}

// encode seals a hostile segment under a valid key. Low-entropy types whose
// codec parameters are invalid are sealed as plain payload (the receiver must
// reject them, not crash).
func encodeUDP(key []byte, spec refproto.SegSpec, salt uint64, i int) []byte {
	nonce := make([]byte, 24)
	e2e.PRFFill(salt^0x77, int64(i)*24, nonce)
	nonce = e2e.UniqueNonce(nonce)
	b, err := refproto.EncodeDatagram(key, nonce, spec)
	if err != nil {
		// invalid low-entropy parameters: seal as an ordinary body, keep the metadata
		p := spec.Meta.Proto
		spec.Meta.Proto = 6
		b2, _ := refproto.EncodeDatagram(key, nonce, refproto.SegSpec{Meta: spec.Meta, Payload: spec.Payload, Pad1: spec.Pad1, Pad2: spec.Pad2})
		// re-seal only the metadata with the original type
		spec.Meta.Proto = p
		hdr, _ := refproto.EncodeDatagram(key, nonce, refproto.SegSpec{Meta: spec.Meta})
		if len(b2) >= refproto.HeaderLen && len(hdr) >= refproto.HeaderLen {
			copy(b2[:refproto.HeaderLen], hdr[:refproto.HeaderLen])
		}
		return b2
	}
	return b
}

func propHostile(c HostileCase) (o pbt.Outcome) {
	if c.AgainstClient {
		return hostileAgainstClient(c)
	}
	cfg := e2e.Config{UDP: c.UDP, Users: c10users, ClientUser: 0}
	sn := simnet.NewStreamNet(simnet.StreamOpts{Record: true})
	pn := simnet.NewPacketNet()
	tStart := time.Now()
	env, err := e2e.Start(cfg, sn, pn)
	if err != nil {
		o.Failf("start", "start: %v", err)
		return
	}
	defer env.StopBounded(5 * time.Second)
	// the victim: an unrelated user's session that must keep working throughout
	ctx, cancel := context.WithTimeout(context.Background(), 30*time.Second)
	defer cancel()
	vc, err := env.Dial(ctx, 0)
	if err != nil {
		o.Inconclusive = "victim dial: " + err.Error()
		return
	}
	defer vc.Close()
	vs, err := env.ServerSide(0, 20*time.Second)
	if err != nil {
		o.Inconclusive = "victim server side: " + err.Error()
		return
	}
	defer vs.Conn.Close()
	upKey, downKey := e2e.StreamKey(c.Salt, 0, 0), e2e.StreamKey(c.Salt, 0, 1)
	var upOff, downOff int64
	exchange := func(n int) string {
		p := make([]byte, n)
		e2e.PRFFill(upKey, upOff, p)
		if _, err := vc.Write(p); err != nil {
			return "victim client write: " + err.Error()
		}
		buf := make([]byte, n)
		vs.Conn.SetReadDeadline(time.Now().Add(15 * time.Second))
		for got := 0; got < n; {
			k, err := vs.Conn.Read(buf[got:])
			got += k
			if err != nil {
				return fmt.Sprintf("victim server read after %d of %d bytes: %v", got, n, err)
			}
		}
		for i := range buf {
			if buf[i] != e2e.PRFByte(upKey, upOff+int64(i)) {
				return fmt.Sprintf("victim upstream byte %d corrupted", upOff+int64(i))
			}
		}
		upOff += int64(n)
		q := make([]byte, n)
		e2e.PRFFill(downKey, downOff, q)
		if _, err := vs.Conn.Write(q); err != nil {
			return "victim server write: " + err.Error()
		}
		deadline := time.Now().Add(15 * time.Second)
		for got := 0; got < n; {
			k, err := vc.Read(buf[got:])
			got += k
			if err != nil && !e2e.IsTimeout(err) {
				return fmt.Sprintf("victim client read after %d of %d bytes: %v", got, n, err)
			}
			if time.Now().After(deadline) {
				return "victim client read timed out"
			}
		}
		for i := range buf {
			if buf[i] != e2e.PRFByte(downKey, downOff+int64(i)) {
				return fmt.Sprintf("victim downstream byte %d corrupted", downOff+int64(i))
			}
		}
		downOff += int64(n)
		return ""
	}
	if msg := exchange(700); msg != "" {
		o.Inconclusive = "before the attack: " + msg
		return
	}
	// learn the victim's session id from the wire
	var victimSid uint32
	if c.UDP {
		dg, _ := pn.Snapshot()
		for _, d := range e2e.DecodeDatagrams(dg, 7000, c10users[:1], tStart, time.Now()) {
			if d.Seg != nil {
				victimSid = d.Seg.Meta.SessionID
				break
			}
		}
	} else {
		for _, l := range e2e.DecodeLinks(sn, c10users[:1], tStart, time.Now()) {
			if len(l.C2S) > 0 {
				victimSid = l.C2S[0].Meta.SessionID
			}
		}
	}
	// the attacker holds a valid credential of its own
	hp := refproto.HashedPassword(c10users[1].Password, c10users[1].Name)
	key := refproto.KeyAt(hp, time.Now().Unix())
	ownSid := uint32(0x0badf00d)
	reached := 0
	victimTargeted := false
	if c.UDP {
		sock, err := pn.Bind(net.IPv4(10, 88, 0, 1), 0)
		if err != nil {
			o.Failf("harness", "bind: %v", err)
			return
		}
		defer sock.Close()
		srv := &net.UDPAddr{IP: net.IPv4(10, 0, 0, 1), Port: 7000}
		if c.OpenFirst {
			open := refproto.SegSpec{Meta: refproto.Meta{Proto: refproto.OpenSessionRequest, Timestamp: uint32(time.Now().Unix() / 60), SessionID: ownSid}, Payload: []byte{5, 1, 0, 3, 7, 's', '7', '.', 't', 'e', 's', 't', 0, 80}, FixLengths: true}
			n := make([]byte, 24)
			e2e.PRFFill(c.Salt^0x99, 0, n)
			n = e2e.UniqueNonce(n)
			refproto.SetUserHint(c10users[1].Name, n)
			b, _ := refproto.EncodeDatagram(key, n, open)
			sock.WriteTo(b, srv)
			time.Sleep(2 * time.Millisecond)
		}
		for k := 1; k <= c.Flood; k++ {
			d := refproto.SegSpec{Meta: refproto.Meta{Proto: 6, Timestamp: uint32(time.Now().Unix() / 60), SessionID: ownSid, Seq: uint32(k), Window: 4096}, Payload: []byte{byte(k)}, FixLengths: true}
			n := make([]byte, 24)
			e2e.PRFFill(c.Salt^0x5151, int64(k)*24, n)
			n = e2e.UniqueNonce(n)
			b, _ := refproto.EncodeDatagram(key, n, d)
			sock.WriteTo(b, srv)
			if k%256 == 0 {
				time.Sleep(2 * time.Millisecond) // let the server keep up: nothing is lost on the way
			}
		}
		if c.Flood > 0 {
			time.Sleep(50 * time.Millisecond)
			o.Label("windowIgnoringFlood")
		}
		for i, h := range c.Segs {
			if h.GapMs > 0 {
				time.Sleep(time.Duration(h.GapMs) * time.Millisecond)
			}
			spec := build(h, ownSid, victimSid, c.Salt, i, false)
			b := encodeUDP(key, spec, c.Salt, i)
			if len(b) > 1500 {
				b = b[:1500]
			}
			if h.TsOff >= -1 && h.TsOff <= 1 {
				reached++
			}
			if h.SidKind == 2 {
				victimTargeted = true
			}
			sock.WriteTo(b, srv)
		}
	} else {
		conn, _, err := sn.DialLinkFrom("10.0.0.1:7000", net.IPv4(10, 88, 0, 1))
		if err != nil {
			o.Failf("harness", "dial: %v", err)
			return
		}
		defer conn.Close()
		n := make([]byte, 24)
		e2e.PRFFill(c.Salt^0x99, 0, n)
		n = e2e.UniqueNonce(n)
		refproto.SetUserHint(c10users[1].Name, n)
		enc := refproto.NewStreamEncoder(key, n)
		if c.OpenFirst {
			open := refproto.SegSpec{Meta: refproto.Meta{Proto: refproto.OpenSessionRequest, Timestamp: uint32(time.Now().Unix() / 60), SessionID: ownSid}, Payload: []byte{5, 1, 0, 3, 7, 's', '7', '.', 't', 'e', 's', 't', 0, 80}, FixLengths: true}
			b, _ := enc.Encode(open)
			conn.Write(b)
		}
		for i, h := range c.Segs {
			if h.GapMs > 0 {
				time.Sleep(time.Duration(h.GapMs) * time.Millisecond)
			}
			spec := build(h, ownSid, victimSid, c.Salt, i, false)
			b, err := enc.Encode(spec)
			if err != nil {
				spec.Meta.Proto = 6
				b, _ = enc.Encode(spec)
			}
			if h.TsOff >= -1 && h.TsOff <= 1 {
				reached++
			}
			if h.SidKind == 2 {
				victimTargeted = true
			}
			conn.SetWriteDeadline(time.Now().Add(2 * time.Second))
			if _, err := conn.Write(b); err != nil {
				break // the server dropped the attacker's connection: fine
			}
		}
		if c.CutLast > 0 {
			payload := make([]byte, 100)
			e2e.PRFFill(c.Salt^0xc07, 0, payload)
			spec := refproto.SegSpec{Meta: refproto.Meta{Proto: 6, Timestamp: uint32(time.Now().Unix() / 60), SessionID: ownSid, Seq: 1, Window: 4096},
				Payload: payload, Pad1: make([]byte, 40), Pad2: make([]byte, 30), FixLengths: true}
			if b, err := enc.Encode(spec); err == nil {
				hdr := len(b) - 40 - 116 - 30
				cut := map[int]int{1: hdr - 20, 2: hdr, 3: hdr + 17, 4: hdr + 40 + 50, 5: hdr + 40 + 100 + 7, 6: hdr + 40 + 116 + 11}[c.CutLast]
				if cut > 0 && cut < len(b) {
					conn.SetWriteDeadline(time.Now().Add(2 * time.Second))
					conn.Write(b[:cut])
					time.Sleep(3 * time.Millisecond)
					if c.CutReset {
						if l := sn.Links(); len(l) > 0 {
							l[len(l)-1].Reset()
						}
					} else {
						conn.Close()
					}
					time.Sleep(20 * time.Millisecond)
					o.Label("cutLast=%d", c.CutLast)
				}
			}
		}
	}
	time.Sleep(5 * time.Millisecond)
	// the unrelated user's session keeps working
	if msg := exchange(900); msg != "" {
		sig := "victim-disturbed"
		if c.UDP && victimTargeted {
			sig = "udp+authenticated+session-id-of-other-user/victim-disturbed"
		}
		o.Failf(sig, "after %d authenticated hostile segments of another user, an unrelated user's session is broken: %s", len(c.Segs), msg)
		return
	}
	o.NonTrivial = reached > 0 || c.CutLast > 0 || c.Flood > 0
	o.Label("udp=%v", c.UDP)
	o.Label("against=server")
	o.Label("victimTargeted=%v", victimTargeted)
	o.Label("openFirst=%v", c.OpenFirst)
	return
}

func hostileAgainstClient(c HostileCase) (o pbt.Outcome) {
	// A reference "server" answers a real client's dial properly and then
	// sends authenticated hostile segments, including wrong-direction types.
	u := c10users[0]
	hp := refproto.HashedPassword(u.Password, u.Name)
	keys := refproto.KeysAround(hp, time.Now().Unix())
	sn := simnet.NewStreamNet(simnet.StreamOpts{})
	pn := simnet.NewPacketNet()
	cfg := e2e.Config{UDP: c.UDP, Users: c10users[:1]}
	env := &e2e.Env{Cfg: cfg, SNet: sn, PNet: pn}
	o.Label("udp=%v", c.UDP)
	o.Label("against=client")
	o.NonTrivial = true
	socksResp := []byte{5, 0, 0, 1, 0, 0, 0, 0, 0, 0}
	done := make(chan struct{})
	if !c.UDP {
		ln, err := sn.Listen(context.Background(), "tcp", "10.0.0.1:7000")
		if err != nil {
			o.Failf("harness", "listen: %v", err)
			return
		}
		defer ln.Close()
		go func() {
			defer close(done)
			conn, err := ln.Accept()
			if err != nil {
				return
			}
			defer conn.Close()
			dec := refproto.NewStreamDecoder(keys)
			var buf []byte
			var first *refproto.Segment
			for first == nil {
				tmp := make([]byte, 4096)
				conn.SetReadDeadline(time.Now().Add(5 * time.Second))
				n, err := conn.Read(tmp)
				buf = append(buf, tmp[:n]...)
				if seg, _, derr := dec.Next(buf); derr == nil {
					first = seg
				} else if err != nil {
					return
				}
			}
			key := keys[first.KeySlot]
			nonce := make([]byte, 24)
			e2e.PRFFill(c.Salt^0x42, 0, nonce)
			nonce = e2e.UniqueNonce(nonce)
			enc := refproto.NewStreamEncoder(key, nonce)
			sid := first.Meta.SessionID
			ts := uint32(time.Now().Unix() / 60)
			b, _ := enc.Encode(refproto.SegSpec{Meta: refproto.Meta{Proto: refproto.OpenSessionResponse, Timestamp: ts, SessionID: sid, Seq: 0}, FixLengths: true})
			conn.Write(b)
			b, _ = enc.Encode(refproto.SegSpec{Meta: refproto.Meta{Proto: refproto.DataServerToClient, Timestamp: ts, SessionID: sid, Seq: 1}, Payload: socksResp, FixLengths: true})
			conn.Write(b)
			for i, h := range c.Segs {
				spec := build(h, sid, sid^0x5555, c.Salt, i, true)
				b, err := enc.Encode(spec)
				if err != nil {
					spec.Meta.Proto = 7
					b, _ = enc.Encode(spec)
				}
				conn.SetWriteDeadline(time.Now().Add(2 * time.Second))
				if _, err := conn.Write(b); err != nil {
					return
				}
			}
			time.Sleep(20 * time.Millisecond)
		}()
	} else {
		sock, err := pn.Bind(net.IPv4(10, 0, 0, 1), 7000)
		if err != nil {
			o.Failf("harness", "bind: %v", err)
			return
		}
		defer sock.Close()
		go func() {
			defer close(done)
			buf := make([]byte, 2000)
			sock.SetReadDeadline(time.Now().Add(5 * time.Second))
			n, from, err := sock.ReadFrom(buf)
			if err != nil {
				return
			}
			first, err := refproto.DecodeDatagram(buf[:n], keys)
			if err != nil {
				return
			}
			key := keys[first.KeySlot]
			sid := first.Meta.SessionID
			ts := uint32(time.Now().Unix() / 60)
			send := func(spec refproto.SegSpec, i int) {
				b := encodeUDP(key, spec, c.Salt^0x1111, i)
				if len(b) > 1500 {
					b = b[:1500]
				}
				sock.WriteTo(b, from)
			}
			send(refproto.SegSpec{Meta: refproto.Meta{Proto: refproto.OpenSessionResponse, Timestamp: ts, SessionID: sid, Seq: 0, UnAck: 1}, FixLengths: true}, 1000)
			send(refproto.SegSpec{Meta: refproto.Meta{Proto: refproto.DataServerToClient, Timestamp: ts, SessionID: sid, Seq: 1, UnAck: 1, Window: 4096}, Payload: socksResp, FixLengths: true}, 1001)
			for i, h := range c.Segs {
				send(build(h, sid, sid^0x5555, c.Salt, i, true), i)
			}
			time.Sleep(20 * time.Millisecond)
		}()
	}
	if err := env.StartClient(); err != nil {
		o.Failf("harness", "client start: %v", err)
		return
	}
	ctx, cancel := context.WithTimeout(context.Background(), 12*time.Second)
	defer cancel()
	conn, err := env.Dial(ctx, 0)
	if err == nil {
		// read whatever the hostile server sends, then close
		buf := make([]byte, 4096)
		conn.SetReadDeadline(time.Now().Add(150 * time.Millisecond))
		for i := 0; i < 50; i++ {
			if _, err := conn.Read(buf); err != nil {
				break
			}
		}
		conn.Close()
	}
	<-done
	stopped := make(chan struct{})
	go func() { env.Client.Stop(); close(stopped) }()
	select {
	case <-stopped:
	case <-time.After(5 * time.Second):
	}
	return
}

func TestC10Hostile(t *testing.T) {
	pbt.Run(t, "C10", "hostile", genHostile, propHostile)
}
