package c10

import (
	"bytes"
	"context"
	"fmt"
	"io"
	"net"
	"sync"
	"testing"
	"time"

	apicommon "github.com/enfein/mieru/v3/apis/common"
	"github.com/enfein/mieru/v3/apis/model"
	pb "github.com/enfein/mieru/v3/pkg/appctl/appctlpb"
	"github.com/enfein/mieru/v3/pkg/socks5"
	"google.golang.org/protobuf/proto"
	"pgregory.net/rapid"

	"verif/harness/pbt"
	"verif/harness/simnet"
)

// (3) SOCKS5 layer: handshakes, requests, UDP-associate datagrams, tunnel
// frames and replies from proxy servers / egress proxies, as byte strings.

type SocksCase struct {
	Target int    `json:"target"`
	Data   []byte `json:"data"`            // what the hostile peer sends / the input bytes
	Reply  []byte `json:"reply,omitempty"` // second hostile stream where the target talks to two peers
	BufLen int    `json:"bufLen"`          // reader's buffer size where it matters
	Chunk  int    `json:"chunk"`           // the fake peer writes in chunks of this size (0 = all at once)
	UseUDP bool   `json:"useUDP,omitempty"`
}

const nTargets = 14

var exemplars = [][]byte{
	{5, 1, 0, 1, 93, 184, 216, 34, 0, 80},                                           // CONNECT ipv4
	{5, 3, 0, 1, 0, 0, 0, 0, 0, 0},                                                  // UDP ASSOCIATE
	{5, 1, 0, 3, 11, 'e', 'x', 'a', 'm', 'p', 'l', 'e', '.', 'c', 'o', 'm', 1, 187}, // CONNECT domain
	{5, 1, 0, 4, 0x20, 1, 0xd, 0xb8, 0, 0, 0, 0, 0, 0, 0, 0, 0, 0, 0, 1, 0, 80},     // CONNECT ipv6
	{5, 0, 0, 1, 127, 0, 0, 1, 0x1f, 0x90},                                          // response
	{5, 1, 0},                                                                       // greeting
	{5, 2, 0, 2},                                                                    // greeting two methods
	{5, 0},                                                                          // method selection
	{1, 1, 'u', 1, 'p'},                                                             // user/pass
	{1, 0},                                                                          // auth ok
	{0, 0, 0, 1, 127, 0, 0, 1, 0, 53, 'p', 'a', 'y'},                                // udp datagram ipv4
	{0, 0, 0, 3, 3, 'a', '.', 'b', 0, 53, 'x'},                                      // udp datagram domain
	{0, 0, 0, 4, 0, 0, 0, 0, 0, 0, 0, 0, 0, 0, 0, 0, 0, 0, 0, 1, 0, 53, 'y'}, // udp datagram ipv6
	{0x00, 0x00, 0x03, 'a', 'b', 'c', 0xff},                                  // tunnel frame
	{0x00, 0x00, 0x00, 0xff},                                                 // empty tunnel frame
	{0x00, 0xff, 0xff},                                                       // tunnel frame claiming 65535
}

func genBytes(t *rapid.T, label string) []byte {
	var out []byte
	n := rapid.IntRange(1, 4).Draw(t, label+".parts")
	for i := 0; i < n; i++ {
		switch rapid.IntRange(0, 3).Draw(t, label+".kind") {
		case 0:
			out = append(out, rapid.SliceOfN(rapid.Byte(), 0, 40).Draw(t, label+".rand")...)
		default:
			e := append([]byte(nil), rapid.SampledFrom(exemplars).Draw(t, label+".ex")...)
			switch rapid.IntRange(0, 5).Draw(t, label+".mut") {
			case 0:
			case 1:
				if len(e) > 0 {
					e = e[:rapid.IntRange(0, len(e)-1).Draw(t, label+".cut")]
				}
			case 2:
				if len(e) > 0 {
					i := rapid.IntRange(0, len(e)-1).Draw(t, label+".pos")
					e[i] = rapid.SampledFrom([]byte{0, 1, 3, 4, 5, 0x7f, 0x80, 0xff}).Draw(t, label+".val")
				}
			case 3:
				i := rapid.IntRange(0, len(e)).Draw(t, label+".ins")
				ins := rapid.SliceOfN(rapid.Byte(), 1, 6).Draw(t, label+".insb")
				e = append(e[:i], append(ins, e[i:]...)...)
			case 4:
				e = append(e, bytes.Repeat([]byte{0xff}, rapid.SampledFrom([]int{1, 255, 300, 70000}).Draw(t, label+".tail"))...)
			default:
				if len(e) > 0 {
					i := rapid.IntRange(0, len(e)-1).Draw(t, label+".flip")
					e[i] ^= 1 << uint(rapid.IntRange(0, 7).Draw(t, label+".bit"))
				}
			}
			out = append(out, e...)
		}
	}
	return out
}

func genSocks(t *rapid.T) SocksCase {
	return SocksCase{
		Target: rapid.IntRange(0, nTargets-1).Draw(t, "target"),
		Data:   genBytes(t, "data"),
		Reply:  genBytes(t, "reply"),
		BufLen: rapid.SampledFrom([]int{0, 1, 3, 10, 300, 65536}).Draw(t, "bufLen"),
		Chunk:  rapid.SampledFrom([]int{0, 0, 1, 2, 7}).Draw(t, "chunk"),
		UseUDP: rapid.Bool().Draw(t, "useUDP"),
	}
}

// fakePacketConn hands out fixed datagrams.
type fakePacketConn struct {
	pkts [][]byte
	i    int
}

func (f *fakePacketConn) ReadFrom(p []byte) (int, net.Addr, error) {
	if f.i >= len(f.pkts) {
		return 0, nil, io.EOF
	}
	n := copy(p, f.pkts[f.i])
	f.i++
	return n, &net.UDPAddr{IP: net.IPv4(127, 0, 0, 1), Port: 9}, nil
}
func (f *fakePacketConn) WriteTo(p []byte, addr net.Addr) (int, error) { return len(p), nil }
func (f *fakePacketConn) Close() error                                 { return nil }
func (f *fakePacketConn) LocalAddr() net.Addr {
	return &net.UDPAddr{IP: net.IPv4(127, 0, 0, 1), Port: 8}
}
func (f *fakePacketConn) SetDeadline(time.Time) error      { return nil }
func (f *fakePacketConn) SetReadDeadline(time.Time) error  { return nil }
func (f *fakePacketConn) SetWriteDeadline(time.Time) error { return nil }

func writeChunks(w io.Writer, data []byte, chunk int) {
	if chunk <= 0 {
		w.Write(data)
		return
	}
	for len(data) > 0 {
		n := chunk
		if n > len(data) {
			n = len(data)
		}
		if _, err := w.Write(data[:n]); err != nil {
			return
		}
		data = data[n:]
	}
}

// fakeProxy is a TCP listener on loopback that answers whatever it is asked
// with the hostile bytes, one slice per read.
func fakeProxy(data []byte, chunk int) (addr string, stop func()) {
	ln, err := net.Listen("tcp", "127.0.0.1:0")
	if err != nil {
		return "", func() {}
	}
	var wg sync.WaitGroup
	wg.Add(1)
	go func() {
		defer wg.Done()
		for {
			conn, err := ln.Accept()
			if err != nil {
				return
			}
			wg.Add(1)
			go func() {
				defer wg.Done()
				defer conn.Close()
				buf := make([]byte, 4096)
				rest := data
				for i := 0; i < 6; i++ {
					conn.SetReadDeadline(time.Now().Add(300 * time.Millisecond))
					if _, err := conn.Read(buf); err != nil {
						return
					}
					// answer with the next piece (split at plausible message sizes)
					n := len(rest)
					if i == 0 && n > 2 {
						n = 2
					} else if i == 1 && n > 10 {
						n = 10
					}
					writeChunks(conn, rest[:n], chunk)
					rest = rest[n:]
					if len(rest) == 0 {
						rest = data
					}
				}
			}()
		}
	}()
	return ln.Addr().String(), func() { ln.Close(); wg.Wait() }
}

func propSocks(c SocksCase) (o pbt.Outcome) {
	o.Label("target=%d", c.Target)
	o.NonTrivial = len(c.Data) > 0
	defer func() {
		if r := recover(); r != nil {
			o.Failf(fmt.Sprintf("panic/target-%d", c.Target), "target %d panicked on input % x (reply % x): %v", c.Target, trunc(c.Data), trunc(c.Reply), r)
		}
	}()
	bufLen := c.BufLen
	switch c.Target {
	case 0:
		(&model.Request{}).ReadFromSocks5(bytes.NewReader(c.Data))
		model.ReadSocks5Request(bytes.NewReader(c.Data))
	case 1:
		(&model.Response{}).ReadFromSocks5(bytes.NewReader(c.Data))
		model.ReadSocks5Response(bytes.NewReader(c.Data))
	case 2:
		a := &model.AddrSpec{}
		if a.ReadFromSocks5(bytes.NewReader(c.Data)) == nil {
			_ = a.String()
			a.WriteToSocks5(io.Discard)
			_ = a.AddrType()
		}
	case 3:
		sn := simnet.NewStreamNet(simnet.StreamOpts{})
		ln, _ := sn.Listen(context.Background(), "tcp", "10.0.0.1:1")
		defer ln.Close()
		go func() {
			conn, err := sn.DialContext(context.Background(), "tcp", "10.0.0.1:1")
			if err == nil {
				writeChunks(conn, c.Data, c.Chunk)
				conn.Close()
			}
		}()
		conn, _ := ln.Accept()
		tun := apicommon.NewPacketOverStreamTunnel(conn)
		buf := make([]byte, bufLen)
		for i := 0; i < 20; i++ {
			conn.SetReadDeadline(time.Now().Add(time.Second))
			if _, err := tun.Read(buf); err != nil {
				break
			}
		}
		conn.Close()
	case 4:
		w := apicommon.NewUDPAssociateWrapper(&fakePacketConn{pkts: [][]byte{c.Data, c.Reply}})
		buf := make([]byte, bufLen)
		w.ReadFrom(buf)
		w.ReadFrom(buf)
	case 5, 6, 10:
		// ServeConn in the server role (5), the client role (6), or the server
		// role with an egress proxy that answers hostile bytes (10)
		cfg := &socks5.Config{HandshakeTimeout: 300 * time.Millisecond}
		var stop func()
		switch c.Target {
		case 5:
			cfg.Egress = &pb.Egress{Rules: []*pb.EgressRule{{IpRanges: []string{"*"}, DomainNames: []string{"*"}, Action: pb.EgressAction_REJECT.Enum()}}}
		case 6:
			cfg.UseProxy = true
			cfg.ProxyDialer = dialerFunc(func() (net.Conn, error) {
				a, b := net.Pipe()
				go func() {
					defer b.Close()
					buf := make([]byte, 4096)
					rest := c.Reply
					for i := 0; i < 4 && len(rest) > 0; i++ {
						b.SetReadDeadline(time.Now().Add(300 * time.Millisecond))
						if _, err := b.Read(buf); err != nil {
							return
						}
						n := len(rest)
						if i == 0 && n > 2 {
							n = 2
						}
						b.SetWriteDeadline(time.Now().Add(300 * time.Millisecond))
						b.Write(rest[:n])
						rest = rest[n:]
					}
				}()
				return a, nil
			})
		case 10:
			var addr string
			addr, stop = fakeProxy(c.Reply, c.Chunk)
			if addr == "" {
				o.Inconclusive = "no loopback listener"
				return
			}
			host, portStr, _ := net.SplitHostPort(addr)
			var port int
			fmt.Sscanf(portStr, "%d", &port)
			cfg.Egress = &pb.Egress{
				Proxies: []*pb.EgressProxy{{Name: proto.String("p"), Protocol: pb.ProxyProtocol_SOCKS5_PROXY_PROTOCOL.Enum(), Host: proto.String(host), Port: proto.Int32(int32(port))}},
				Rules:   []*pb.EgressRule{{IpRanges: []string{"*"}, DomainNames: []string{"*"}, Action: pb.EgressAction_PROXY.Enum(), ProxyNames: []string{"p"}}},
			}
		}
		if stop != nil {
			defer stop()
		}
		srv, err := socks5.New(cfg)
		if err != nil {
			o.Failf("harness", "socks5.New: %v", err)
			return
		}
		sn := simnet.NewStreamNet(simnet.StreamOpts{})
		ln, _ := sn.Listen(context.Background(), "tcp", "10.0.0.1:1080")
		defer ln.Close()
		go func() {
			conn, err := sn.DialContext(context.Background(), "tcp", "10.0.0.1:1080")
			if err != nil {
				return
			}
			input := c.Data
			if c.Target == 10 {
				// a well-formed client so that forwarding is reached
				input = append([]byte{5, 1, 0}, exemplars[0]...)
				if c.UseUDP {
					input = append([]byte{5, 1, 0}, exemplars[1]...)
				}
			}
			writeChunks(conn, input, c.Chunk)
			go io.Copy(io.Discard, conn)
			time.Sleep(30 * time.Millisecond)
			conn.Close()
		}()
		conn, _ := ln.Accept()
		done := make(chan struct{})
		go func() {
			defer close(done)
			defer func() {
				if r := recover(); r != nil {
					o.Failf(fmt.Sprintf("panic/target-%d", c.Target), "ServeConn panicked on client input % x / peer reply % x: %v", trunc(c.Data), trunc(c.Reply), r)
				}
			}()
			srv.ServeConn(conn)
		}()
		select {
		case <-done:
		case <-time.After(5 * time.Second):
			conn.Close()
			<-done
		}
	case 7:
		addr, stop := fakeProxy(c.Data, c.Chunk)
		defer stop()
		cmd := byte(1)
		if c.UseUDP {
			cmd = 3
		}
		conn, err := socks5.Dial("socks5://127.0.0.1:"+portOf(addr)+"?timeout=1s", cmd)("tcp", "example.com:80")
		if err == nil && conn != nil {
			conn.Close()
		}
		c2, u2, _, err := socks5.DialSocks5Proxy(&socks5.Client{Host: addr, CmdType: cmd, Timeout: time.Second, Credential: &socks5.Credential{User: "u", Password: "p"}})("tcp", "1.2.3.4:5")
		if err == nil {
			if c2 != nil {
				c2.Close()
			}
			if u2 != nil {
				u2.Close()
			}
		}
	case 8:
		addr, stop := fakeProxy(c.Data, c.Chunk)
		defer stop()
		d := socks5.NewClientDialer(addr, nil, true)
		d.Timeout = time.Second
		ctx, cancel := context.WithTimeout(context.Background(), time.Second)
		defer cancel()
		if c.UseUDP {
			if pc, err := d.ListenPacket(ctx, "udp", "", "1.2.3.4:53"); err == nil {
				pc.Close()
			}
		} else if conn, err := d.DialContext(ctx, "tcp", "example.com:80"); err == nil {
			conn.Close()
		}
	case 9:
		proxy, err := net.ListenUDP("udp4", &net.UDPAddr{IP: net.IPv4(127, 0, 0, 1)})
		if err != nil {
			o.Inconclusive = "no loopback UDP"
			return
		}
		defer proxy.Close()
		go func() {
			buf := make([]byte, 2000)
			proxy.SetReadDeadline(time.Now().Add(time.Second))
			_, from, err := proxy.ReadFromUDP(buf)
			if err == nil {
				d := c.Data
				if len(d) > 60000 {
					d = d[:60000]
				}
				proxy.WriteToUDP(d, from)
			}
		}()
		cl, err := net.ListenUDP("udp4", &net.UDPAddr{IP: net.IPv4(127, 0, 0, 1)})
		if err != nil {
			return
		}
		defer cl.Close()
		cl.SetDeadline(time.Now().Add(time.Second))
		socks5.TransceiveUDPPacket(cl, proxy.LocalAddr().(*net.UDPAddr), &net.UDPAddr{IP: net.IPv4(1, 2, 3, 4), Port: 5}, []byte("q"))
	case 11:
		// UDP-associate relay loop fed with hostile tunnel frames
		udpConn, err := net.ListenUDP("udp4", &net.UDPAddr{IP: net.IPv4(127, 0, 0, 1)})
		if err != nil {
			o.Inconclusive = "no loopback UDP"
			return
		}
		a, b := net.Pipe()
		go func() {
			b.SetWriteDeadline(time.Now().Add(time.Second))
			writeChunks(b, c.Data, c.Chunk)
			// also a well-framed but hostile datagram
			frame := append([]byte{0, byte(len(c.Reply) >> 8), byte(len(c.Reply))}, c.Reply...)
			if len(c.Reply) < 65536 {
				b.Write(append(frame, 0xff))
			}
			time.Sleep(20 * time.Millisecond)
			b.Close()
		}()
		done := make(chan struct{})
		go func() {
			defer close(done)
			defer func() {
				if r := recover(); r != nil {
					o.Failf("panic/target-11", "RunUDPAssociateLoop panicked: %v", r)
				}
			}()
			// callers always pass a resolver (socks5.New installs one)
			socks5.RunUDPAssociateLoop(udpConn, apicommon.NewPacketOverStreamTunnel(a), noResolver{})
		}()
		select {
		case <-done:
		case <-time.After(3 * time.Second):
			a.Close()
			udpConn.Close()
			<-done
		}
	case 12:
		// RFC 1928 datagram relay mode: a well-formed ASSOCIATE, then hostile
		// datagrams to the relay port from the client's socket and from a stranger's
		cfg := &socks5.Config{HandshakeTimeout: 300 * time.Millisecond, UDPAssociateMode: socks5.UDPAssociateModeDatagram, Resolver: noResolver{}}
		srv, err := socks5.New(cfg)
		if err != nil {
			o.Failf("harness", "socks5.New: %v", err)
			return
		}
		sn := simnet.NewStreamNet(simnet.StreamOpts{})
		ln, _ := sn.Listen(context.Background(), "tcp", "10.0.0.1:1080")
		defer ln.Close()
		go func() {
			conn, err := sn.DialContext(context.Background(), "tcp", "10.0.0.1:1080")
			if err != nil {
				return
			}
			defer conn.Close()
			writeChunks(conn, append([]byte{5, 1, 0}, exemplars[1]...), c.Chunk)
			rep := make([]byte, 12)
			conn.SetReadDeadline(time.Now().Add(time.Second))
			if _, err := io.ReadFull(conn, rep); err != nil || rep[3] != 0 {
				return
			}
			port := int(rep[10])<<8 | int(rep[11])
			to := &net.UDPAddr{IP: net.IPv4(127, 0, 0, 1), Port: port}
			cl, err := net.ListenUDP("udp4", &net.UDPAddr{IP: net.IPv4(127, 0, 0, 1)})
			if err != nil {
				return
			}
			defer cl.Close()
			stranger, err := net.ListenUDP("udp4", &net.UDPAddr{IP: net.IPv4(127, 0, 0, 1)})
			if err != nil {
				return
			}
			defer stranger.Close()
			cut := func(b []byte) []byte {
				if len(b) > 60000 {
					return b[:60000]
				}
				return b
			}
			// the stranger's address as a destination, so that its datagrams are relayed back
			sp := stranger.LocalAddr().(*net.UDPAddr).Port
			toStranger := []byte{0, 0, 0, 1, 127, 0, 0, 1, byte(sp >> 8), byte(sp), 'h', 'i'}
			order := [][2]interface{}{{cl, cut(c.Data)}, {stranger, cut(c.Reply)}, {cl, toStranger}, {stranger, cut(c.Data)}, {cl, cut(c.Reply)}, {stranger, []byte{}}, {cl, []byte{}}}
			if c.UseUDP {
				// the stranger speaks first and is pinned as the client if its datagram parses
				order[0], order[1] = order[1], order[0]
			}
			for _, x := range order {
				x[0].(*net.UDPConn).WriteToUDP(x[1].([]byte), to)
				time.Sleep(time.Millisecond)
			}
			time.Sleep(20 * time.Millisecond)
		}()
		conn, _ := ln.Accept()
		done := make(chan struct{})
		go func() {
			defer close(done)
			defer func() {
				if r := recover(); r != nil {
					o.Failf("panic/target-12", "ServeConn (datagram relay) panicked on datagrams % x / % x: %v", trunc(c.Data), trunc(c.Reply), r)
				}
			}()
			srv.ServeConn(conn)
		}()
		select {
		case <-done:
		case <-time.After(5 * time.Second):
			conn.Close()
			<-done
		}
	case 13:
		// client role, UDP ASSOCIATE: the proxy server completes the handshake
		// properly and then sends well-framed tunnel packets with hostile content
		// at once - before the local application has sent its first datagram
		cfg := &socks5.Config{HandshakeTimeout: 300 * time.Millisecond, UseProxy: true}
		cfg.ProxyDialer = dialerFunc(func() (net.Conn, error) {
			a, b := net.Pipe()
			go func() {
				defer b.Close()
				buf := make([]byte, 4096)
				// method negotiation, then the request: both answered properly
				b.SetReadDeadline(time.Now().Add(500 * time.Millisecond))
				if _, err := io.ReadFull(b, buf[:3]); err != nil {
					return
				}
				b.SetWriteDeadline(time.Now().Add(500 * time.Millisecond))
				b.Write([]byte{5, 0})
				b.SetReadDeadline(time.Now().Add(500 * time.Millisecond))
				if _, err := io.ReadFull(b, buf[:10]); err != nil {
					return
				}
				b.SetWriteDeadline(time.Now().Add(500 * time.Millisecond))
				b.Write([]byte{5, 0, 0, 1, 0, 0, 0, 0, 0x1f, 0x90})
				for _, p := range [][]byte{c.Reply, c.Data, {}} {
					if len(p) > 60000 {
						p = p[:60000]
					}
					frame := append([]byte{0, byte(len(p) >> 8), byte(len(p))}, p...)
					b.SetWriteDeadline(time.Now().Add(500 * time.Millisecond))
					if _, err := b.Write(append(frame, 0xff)); err != nil {
						return
					}
				}
				time.Sleep(80 * time.Millisecond)
			}()
			return a, nil
		})
		srv, err := socks5.New(cfg)
		if err != nil {
			o.Failf("harness", "socks5.New: %v", err)
			return
		}
		sn := simnet.NewStreamNet(simnet.StreamOpts{})
		ln, _ := sn.Listen(context.Background(), "tcp", "10.0.0.1:1080")
		defer ln.Close()
		go func() {
			conn, err := sn.DialContext(context.Background(), "tcp", "10.0.0.1:1080")
			if err != nil {
				return
			}
			defer conn.Close()
			writeChunks(conn, append([]byte{5, 1, 0}, exemplars[1]...), c.Chunk)
			rep := make([]byte, 12)
			conn.SetReadDeadline(time.Now().Add(time.Second))
			if _, err := io.ReadFull(conn, rep); err != nil || rep[3] != 0 {
				return
			}
			port := int(rep[10])<<8 | int(rep[11])
			// the application speaks only after the proxy server already did
			time.Sleep(40 * time.Millisecond)
			if app, err := net.ListenUDP("udp4", &net.UDPAddr{IP: net.IPv4(127, 0, 0, 1)}); err == nil {
				app.WriteToUDP(exemplars[10], &net.UDPAddr{IP: net.IPv4(127, 0, 0, 1), Port: port})
				time.Sleep(20 * time.Millisecond)
				app.Close()
			}
		}()
		conn, _ := ln.Accept()
		done := make(chan struct{})
		go func() {
			defer close(done)
			defer func() {
				if r := recover(); r != nil {
					o.Failf("panic/target-13", "ServeConn (client role, UDP associate) panicked: %v", r)
				}
			}()
			srv.ServeConn(conn)
		}()
		select {
		case <-done:
		case <-time.After(5 * time.Second):
			conn.Close()
			<-done
		}
	}
	return
}

type noResolver struct{}

func (noResolver) LookupIP(ctx context.Context, network, host string) ([]net.IP, error) {
	return nil, fmt.Errorf("no such host %q", host)
}

type dialerFunc func() (net.Conn, error)

func (f dialerFunc) DialContext(ctx context.Context) (net.Conn, error) { return f() }

func portOf(addr string) string {
	_, p, _ := net.SplitHostPort(addr)
	return p
}

func trunc(b []byte) []byte {
	if len(b) > 48 {
		return b[:48]
	}
	return b
}

func TestC10Socks(t *testing.T) {
	pbt.Run(t, "C10", "socks", genSocks, propSocks)
}

// FuzzC10Parsers: coverage-guided search for a panic in the SOCKS5 parsers.
func FuzzC10Parsers(f *testing.F) {
	for _, e := range exemplars {
		f.Add(e, 64)
	}
	f.Fuzz(func(t *testing.T, data []byte, bufLen int) {
		if bufLen < 0 || bufLen > 70000 {
			bufLen = 64
		}
		(&model.Request{}).ReadFromSocks5(bytes.NewReader(data))
		(&model.Response{}).ReadFromSocks5(bytes.NewReader(data))
		a := &model.AddrSpec{}
		if a.ReadFromSocks5(bytes.NewReader(data)) == nil {
			_ = a.String()
			a.WriteToSocks5(io.Discard)
		}
		w := apicommon.NewUDPAssociateWrapper(&fakePacketConn{pkts: [][]byte{data}})
		w.ReadFrom(make([]byte, bufLen))
		tun := apicommon.NewPacketOverStreamTunnel(&readConn{r: bytes.NewReader(data)})
		buf := make([]byte, bufLen)
		for i := 0; i < 8; i++ {
			if _, err := tun.Read(buf); err != nil {
				break
			}
		}
	})
}

type readConn struct {
	net.Conn
	r io.Reader
}

func (c *readConn) Read(p []byte) (int, error) { return c.r.Read(p) }
