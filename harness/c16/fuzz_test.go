package c16

import (
	"testing"

	"pgregory.net/rapid"

	"verif/harness/pbt"
)

func FuzzC16Config(f *testing.F) {
	pbt.Fuzz(f, "C16", "config", func(t *rapid.T) ConfigCase { return ConfigCase{Spec: genSpec(t)} }, propConfig)
}
