// C16 — traffic-pattern settings are honoured; implicit ones are stable.
// (a) configuration space through the exported trafficpattern API.
// (b) on the wire (wire_test.go). See DESIGN.md section 3.16.
package c16

import (
	"encoding/hex"
	"fmt"
	"testing"

	"github.com/enfein/mieru/v3/apis/trafficpattern"
	pb "github.com/enfein/mieru/v3/pkg/appctl/appctlpb"
	"google.golang.org/protobuf/proto"
	"pgregory.net/rapid"

	"verif/harness/e2e"
	"verif/harness/pbt"
)

func optI(t *rapid.T, label string, g *rapid.Generator[int32]) *int32 {
	if rapid.Bool().Draw(t, label+"?") {
		return proto.Int32(g.Draw(t, label))
	}
	return nil
}

func optB(t *rapid.T, label string) *bool {
	switch rapid.IntRange(0, 2).Draw(t, label) {
	case 1:
		return proto.Bool(false)
	case 2:
		return proto.Bool(true)
	}
	return nil
}

// genSpec covers every subset of explicitly set fields with boundary values.
func genSpec(t *rapid.T) e2e.PatternSpec {
	var s e2e.PatternSpec
	if rapid.IntRange(0, 19).Draw(t, "nil") == 0 {
		s.Nil = true
		return s
	}
	s.Seed = optI(t, "seed", rapid.OneOf(rapid.Int32Range(0, 100), rapid.Int32(), rapid.Just(int32(-1)), rapid.Just(int32(2147483647))))
	s.UnlockAll = optB(t, "unlockAll")
	s.HasFrag = rapid.Bool().Draw(t, "hasFrag")
	s.FragEnable = optB(t, "fragEnable")
	s.FragSleep = optI(t, "fragSleep", rapid.SampledFrom([]int32{0, 1, 50, 99, 100}))
	s.HasNonce = rapid.Bool().Draw(t, "hasNonce")
	s.NonceType = optI(t, "nonceType", rapid.Int32Range(0, 3))
	s.NonceAll = optB(t, "nonceAll")
	mn := optI(t, "nonceMin", rapid.Int32Range(0, 12))
	mx := optI(t, "nonceMax", rapid.Int32Range(0, 12))
	if mn != nil && mx != nil && *mn > *mx {
		mn, mx = mx, mn
	}
	s.NonceMin, s.NonceMax = mn, mx
	nh := rapid.SampledFrom([]int{0, 0, 1, 2, 5}).Draw(t, "nHex")
	for i := 0; i < nh; i++ {
		l := rapid.SampledFrom([]int{0, 1, 4, 11, 12}).Draw(t, "hexLen")
		s.NonceHex = append(s.NonceHex, hex.EncodeToString(rapid.SliceOfN(rapid.Byte(), l, l).Draw(t, "hex")))
	}
	s.HasPad = rapid.Bool().Draw(t, "hasPad")
	s.PadMid = optI(t, "padMid", rapid.SampledFrom([]int32{0, 1, 127, 128, 254, 255}))
	s.PadEnd = optI(t, "padEnd", rapid.SampledFrom([]int32{0, 1, 127, 128, 254, 255}))
	s.HasLE = rapid.Bool().Draw(t, "hasLE")
	s.LEMode = optI(t, "leMode", rapid.Int32Range(0, 4))
	if rapid.Bool().Draw(t, "leRot?") {
		s.LERot = proto.Int32(rapid.SampledFrom(e2e.ValidRotations).Draw(t, "leRot"))
	}
	return s
}

type ConfigCase struct {
	Spec e2e.PatternSpec `json:"spec"`
}

func explicitCount(s e2e.PatternSpec) int {
	n := 0
	for _, p := range []bool{s.FragEnable != nil, s.FragSleep != nil, s.NonceType != nil, s.NonceAll != nil, s.NonceMin != nil, s.NonceMax != nil, len(s.NonceHex) > 0, s.PadMid != nil, s.PadEnd != nil, s.LEMode != nil, s.LERot != nil} {
		if p {
			n++
		}
	}
	return n
}

func propConfig(c ConfigCase) (o pbt.Outcome) {
	p := c.Spec.Proto()
	o.Label("explicit=%d", explicitCount(c.Spec))
	o.Label("seed=%v,unlock=%v", c.Spec.Seed != nil, c.Spec.UnlockAll != nil && *c.Spec.UnlockAll)
	o.NonTrivial = explicitCount(c.Spec) > 0
	if err := trafficpattern.Validate(p); err != nil {
		o.Failf("harness", "generator produced an invalid pattern: %v", err)
		return
	}
	orig := proto.Clone(p)
	cfg, err := trafficpattern.NewConfig(p)
	if err != nil {
		o.Failf("newconfig", "NewConfig rejected a valid pattern: %v", err)
		return
	}
	if p != nil && !proto.Equal(orig, p) {
		o.Failf("mutated", "NewConfig modified its argument")
		return
	}
	eff := cfg.Effective()
	if eff == nil {
		o.Failf("effective", "Effective() is nil")
		return
	}
	// explicit fields are never overridden
	chk := func(name string, set bool, same bool) bool {
		if set && !same {
			o.Failf("override/"+name, "explicit %s was overridden by implicit generation: original %v effective %v", name, p, eff)
			return false
		}
		return true
	}
	s := c.Spec
	if !chk("seed", s.Seed != nil, eff.Seed != nil && s.Seed != nil && *eff.Seed == *s.Seed) ||
		!chk("unlockAll", s.UnlockAll != nil, eff.UnlockAll != nil && s.UnlockAll != nil && *eff.UnlockAll == *s.UnlockAll) ||
		!chk("tcpFragment.enable", s.FragEnable != nil, eff.GetTcpFragment().Enable != nil && s.FragEnable != nil && eff.GetTcpFragment().GetEnable() == *s.FragEnable) ||
		!chk("tcpFragment.maxSleepMs", s.FragSleep != nil, eff.GetTcpFragment().MaxSleepMs != nil && s.FragSleep != nil && eff.GetTcpFragment().GetMaxSleepMs() == *s.FragSleep) ||
		!chk("nonce.type", s.NonceType != nil, eff.GetNonce().Type != nil && s.NonceType != nil && int32(eff.GetNonce().GetType()) == *s.NonceType) ||
		!chk("nonce.applyToAllUDPPacket", s.NonceAll != nil, eff.GetNonce().ApplyToAllUDPPacket != nil && s.NonceAll != nil && eff.GetNonce().GetApplyToAllUDPPacket() == *s.NonceAll) ||
		!chk("nonce.minLen", s.NonceMin != nil, eff.GetNonce().MinLen != nil && s.NonceMin != nil && eff.GetNonce().GetMinLen() == *s.NonceMin) ||
		!chk("nonce.maxLen", s.NonceMax != nil, eff.GetNonce().MaxLen != nil && s.NonceMax != nil && eff.GetNonce().GetMaxLen() == *s.NonceMax) ||
		!chk("nonce.customHexStrings", len(s.NonceHex) > 0, fmt.Sprint(eff.GetNonce().GetCustomHexStrings()) == fmt.Sprint(s.NonceHex)) ||
		!chk("padding.maxMiddlePaddingLen", s.PadMid != nil, eff.GetPadding().MaxMiddlePaddingLen != nil && s.PadMid != nil && eff.GetPadding().GetMaxMiddlePaddingLen() == *s.PadMid) ||
		!chk("padding.maxEndPaddingLen", s.PadEnd != nil, eff.GetPadding().MaxEndPaddingLen != nil && s.PadEnd != nil && eff.GetPadding().GetMaxEndPaddingLen() == *s.PadEnd) ||
		!chk("lowEntropy.mode", s.LEMode != nil, eff.GetLowEntropy().Mode != nil && s.LEMode != nil && int32(eff.GetLowEntropy().GetMode()) == *s.LEMode) ||
		!chk("lowEntropy.maskRotation", s.LERot != nil, eff.GetLowEntropy().MaskRotation != nil && s.LERot != nil && int32(eff.GetLowEntropy().GetMaskRotation()) == *s.LERot) {
		return
	}
	// every value left unset is derived: the effective pattern is complete
	if eff.GetTcpFragment().Enable == nil || eff.GetTcpFragment().MaxSleepMs == nil || eff.GetNonce().Type == nil || eff.GetNonce().ApplyToAllUDPPacket == nil ||
		eff.GetNonce().MinLen == nil || eff.GetNonce().MaxLen == nil || eff.GetPadding().MaxMiddlePaddingLen == nil || eff.GetPadding().MaxEndPaddingLen == nil ||
		eff.GetLowEntropy().Mode == nil || eff.GetLowEntropy().MaskRotation == nil {
		o.Failf("incomplete", "effective pattern leaves a value underived: %v", eff)
		return
	}
	// the derived configuration passes validation
	if err := trafficpattern.Validate(eff); err != nil {
		sig := "effective-invalid"
		if s.NonceMax != nil && s.NonceMin == nil {
			sig = "effective-invalid/nonce-maxlen-explicit-minlen-implicit"
		}
		o.Failf(sig, "effective pattern fails validation: %v (original %v, effective %v)", err, p, eff)
		return
	}
	// deterministic
	cfg2, err := trafficpattern.NewConfig(proto.Clone(orig).(*pb.TrafficPattern))
	if p == nil {
		cfg2, err = trafficpattern.NewConfig(nil)
	}
	if err != nil || !proto.Equal(cfg2.Effective(), eff) {
		o.Failf("nondeterministic", "two constructions from the same pattern disagree: %v vs %v", eff, cfg2.Effective())
		return
	}
	// survives encoding for sharing
	for _, m := range []*pb.TrafficPattern{p, eff} {
		if m == nil {
			continue
		}
		d, err := trafficpattern.Decode(trafficpattern.Encode(m))
		if err != nil || !proto.Equal(d, m) {
			o.Failf("encode", "Decode(Encode(p)) != p: %v -> %v (err %v)", m, d, err)
			return
		}
	}
	// the exported effective pattern can be re-imported and is a fixed point
	cfg3, err := trafficpattern.NewConfig(proto.Clone(eff).(*pb.TrafficPattern))
	if err != nil {
		o.Failf("reimport", "effective pattern cannot be re-imported: %v", err)
		return
	}
	if !proto.Equal(cfg3.Effective(), eff) {
		o.Failf("reimport", "re-importing the effective pattern changes it: %v -> %v", eff, cfg3.Effective())
	}
	return
}

func TestC16Config(t *testing.T) {
	pbt.Run(t, "C16", "config", func(t *rapid.T) ConfigCase { return ConfigCase{Spec: genSpec(t)} }, propConfig)
}
