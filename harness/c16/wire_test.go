package c16

import (
	"bytes"
	"encoding/hex"
	"fmt"
	"strings"
	"testing"
	"time"

	"github.com/enfein/mieru/v3/apis/trafficpattern"
	pb "github.com/enfein/mieru/v3/pkg/appctl/appctlpb"
	"github.com/enfein/mieru/v3/pkg/common"
	"pgregory.net/rapid"

	"verif/harness/e2e"
	"verif/harness/pbt"
	"verif/harness/refproto"
	"verif/harness/simnet"
)

// (b) on the wire: what a client and a server emit under explicit patterns,
// read back with the reference decoder.

type WireCase struct {
	Cfg   e2e.Config     `json:"cfg"`
	Progs []e2e.SessProg `json:"progs"`
	Salt  uint64         `json:"salt"`
}

func genWire(t *rapid.T) WireCase {
	var c WireCase
	c.Salt = rapid.Uint64().Draw(t, "salt")
	c.Cfg.UDP = rapid.Bool().Draw(t, "udp")
	c.Cfg.NoWait = rapid.IntRange(0, 3).Draw(t, "noWait") == 0
	c.Cfg.Multiplex = rapid.SampledFrom([]int{0, 1, 4}).Draw(t, "multiplex")
	c.Cfg.ClientPattern = genSpec(t)
	c.Cfg.ServerPattern = genSpec(t)
	for _, p := range []*e2e.PatternSpec{&c.Cfg.ClientPattern, &c.Cfg.ServerPattern} {
		// keep fragment sleeps short: they only cost time
		if p.FragSleep != nil && *p.FragSleep > 2 {
			v := int32(2)
			p.FragSleep = &v
		}
		if p.FragSleep == nil && p.UnlockAll != nil && *p.UnlockAll {
			v := int32(0)
			p.FragSleep = &v
		}
	}
	n := rapid.IntRange(1, 2).Draw(t, "nSess")
	for i := 0; i < n; i++ {
		var p e2e.SessProg
		for j := rapid.IntRange(1, 3).Draw(t, "nUp"); j > 0; j-- {
			p.Up.Writes = append(p.Up.Writes, rapid.SampledFrom([]int{1, 5, 100, 1200, 1500, 5000}).Draw(t, "up"))
		}
		for j := rapid.IntRange(1, 3).Draw(t, "nDown"); j > 0; j-- {
			p.Down.Writes = append(p.Down.Writes, rapid.SampledFrom([]int{1, 5, 100, 1200, 1500, 5000}).Draw(t, "down"))
		}
		c.Progs = append(c.Progs, p)
	}
	return c
}

type side struct {
	name string
	spec e2e.PatternSpec
	eff  *pb.TrafficPattern
}

func (s *side) checkPadding(o *pbt.Outcome, seg *refproto.Segment, where string) bool {
	m := seg.Meta
	end := int(s.eff.GetPadding().GetMaxEndPaddingLen())
	mid := int(s.eff.GetPadding().GetMaxMiddlePaddingLen())
	if int(m.SuffixLen) > end {
		o.Failf("padding/end", "%s: end padding of %d bytes exceeds the %s's maxEndPaddingLen %d (explicit=%v)", where, m.SuffixLen, s.name, end, s.spec.PadEnd != nil)
		return false
	}
	if !refproto.IsSession(m.Proto) && int(m.PrefixLen) > mid {
		o.Failf("padding/middle", "%s: middle padding of %d bytes exceeds the %s's maxMiddlePaddingLen %d (explicit=%v)", where, m.PrefixLen, s.name, mid, s.spec.PadMid != nil)
		return false
	}
	return true
}

func (s *side) checkNonce(o *pbt.Outcome, nonce []byte, where string) bool {
	n := s.eff.GetNonce()
	minLen := int(n.GetMinLen())
	if int(n.GetMaxLen()) < minLen {
		minLen = int(n.GetMaxLen())
	}
	switch n.GetType() {
	case pb.NonceType_NONCE_TYPE_PRINTABLE:
		for i := 0; i < minLen; i++ {
			if nonce[i] < 0x20 || nonce[i] > 0x7e {
				o.Failf("nonce/printable", "%s: nonce byte %d (0x%02x) is not printable although the %s configured PRINTABLE with minLen %d (nonce % x)", where, i, nonce[i], s.name, minLen, nonce[:12])
				return false
			}
		}
	case pb.NonceType_NONCE_TYPE_PRINTABLE_SUBSET:
		for i := 0; i < minLen; i++ {
			if !strings.ContainsRune(common.Common64Set, rune(nonce[i])) {
				o.Failf("nonce/subset", "%s: nonce byte %d (0x%02x) is outside the pre-defined subset (minLen %d, nonce % x)", where, i, nonce[i], minLen, nonce[:12])
				return false
			}
		}
	case pb.NonceType_NONCE_TYPE_FIXED:
		if len(n.GetCustomHexStrings()) > 0 {
			ok := false
			for _, h := range n.GetCustomHexStrings() {
				p, _ := hex.DecodeString(h)
				if bytes.HasPrefix(nonce, p) {
					ok = true
				}
			}
			if !ok {
				o.Failf("nonce/fixed", "%s: nonce % x starts with none of the %s's fixed prefixes %v", where, nonce[:12], s.name, n.GetCustomHexStrings())
				return false
			}
		}
	}
	return true
}

// nonceLooksPatterned reports whether the nonce matches the side's nonce
// pattern, for patterns that a random nonce matches with negligible
// probability only (otherwise false).
func (s *side) nonceLooksPatterned(nonce []byte) bool {
	n := s.eff.GetNonce()
	minLen := int(n.GetMinLen())
	if int(n.GetMaxLen()) < minLen {
		minLen = int(n.GetMaxLen())
	}
	switch n.GetType() {
	case pb.NonceType_NONCE_TYPE_PRINTABLE:
		if minLen < 6 {
			return false
		}
		for i := 0; i < minLen; i++ {
			if nonce[i] < 0x20 || nonce[i] > 0x7e {
				return false
			}
		}
		return true
	case pb.NonceType_NONCE_TYPE_PRINTABLE_SUBSET:
		if minLen < 4 {
			return false
		}
		for i := 0; i < minLen; i++ {
			if !strings.ContainsRune(common.Common64Set, rune(nonce[i])) {
				return false
			}
		}
		return true
	case pb.NonceType_NONCE_TYPE_FIXED:
		long := false
		for _, h := range n.GetCustomHexStrings() {
			p, _ := hex.DecodeString(h)
			if len(p) < 2 {
				return false // some prefix is too short to tell
			}
			long = true
		}
		if !long {
			return false
		}
		for _, h := range n.GetCustomHexStrings() {
			p, _ := hex.DecodeString(h)
			if bytes.HasPrefix(nonce, p) {
				return true
			}
		}
	}
	return false
}

func (s *side) checkData(o *pbt.Outcome, seg *refproto.Segment, fromClient, clientLE bool, where string) bool {
	m := seg.Meta
	if !refproto.IsData(m.Proto) {
		return true
	}
	mode := s.eff.GetLowEntropy().GetMode()
	rot := s.eff.GetLowEntropy().GetMaskRotation()
	wantLE := mode != pb.LowEntropyMode_LOW_ENTROPY_MODE_OFF
	if !fromClient {
		if refproto.IsLE(m.Proto) && !clientLE {
			o.Failf("le/server-first", "%s: the server used low entropy towards a client that never used it", where)
			return false
		}
		wantLE = wantLE && clientLE
	}
	if refproto.IsLE(m.Proto) != wantLE {
		o.Failf("le/mode", "%s: low-entropy=%v on the wire, the %s's effective mode is %v (explicit=%v)", where, refproto.IsLE(m.Proto), s.name, mode, s.spec.LEMode != nil)
		return false
	}
	if wantLE && (m.Byte1 != uint8(mode) || m.LERot != uint8(rot)) {
		o.Failf("le/params", "%s: mode %d rotation %d on the wire, the %s configured mode %d rotation %d", where, m.Byte1, m.LERot, s.name, mode, rot)
		return false
	}
	return true
}

func propWire(c WireCase) (o pbt.Outcome) {
	sides := map[bool]*side{true: {name: "client", spec: c.Cfg.ClientPattern}, false: {name: "server", spec: c.Cfg.ServerPattern}}
	for _, s := range sides {
		cfg, err := trafficpattern.NewConfig(s.spec.Proto())
		if err != nil {
			o.Failf("harness", "NewConfig: %v", err)
			return
		}
		s.eff = cfg.Effective()
	}
	o.NonTrivial = explicitCount(c.Cfg.ClientPattern)+explicitCount(c.Cfg.ServerPattern) > 0
	o.Label("udp=%v", c.Cfg.UDP)
	tStart := time.Now()
	sn := simnet.NewStreamNet(simnet.StreamOpts{Record: true})
	pn := simnet.NewPacketNet()
	env, err := e2e.Start(c.Cfg, sn, pn)
	if err != nil {
		o.Failf("start", "a valid pattern does not start: %v", err)
		return
	}
	res := e2e.RunTransfer(env, c.Progs, e2e.TransferOpts{Salt: c.Salt, StallAfter: 30 * time.Second, MaxWall: 60 * time.Second})
	env.StopBounded(3 * time.Second)
	for i, s := range res.Sessions {
		if s.OpenErr != "" || s.Up.Mismatch != "" || s.Down.Mismatch != "" || !s.Up.DoneReading || !s.Down.DoneReading {
			o.Failf("run", "a valid pattern does not run without error: session %d %+v", i, s)
			return
		}
	}
	clientLE := sides[true].eff.GetLowEntropy().GetMode() != pb.LowEntropyMode_LOW_ENTROPY_MODE_OFF
	if !c.Cfg.UDP {
		for _, l := range e2e.DecodeLinks(sn, e2e.DefaultUsers, tStart, time.Now()) {
			for dir, segs := range [][]*refproto.Segment{l.C2S, l.S2C} {
				fromClient := dir == 0
				s := sides[fromClient]
				writes := l.WritesC2S
				if !fromClient {
					writes = l.WritesS2C
				}
				for i, seg := range segs {
					where := fmt.Sprintf("link %d %s segment %d %s", l.LinkID, s.name, i, e2e.DescribeSeg(seg))
					if !s.checkPadding(&o, seg, where) || !s.checkData(&o, seg, fromClient, clientLE, where) {
						return
					}
					if i == 0 && !s.checkNonce(&o, seg.Nonce, where) {
						return
					}
					// TCP fragmentation of session segments
					if refproto.IsSession(seg.Meta.Proto) {
						pieces := 0
						for _, w := range writes {
							if int(w.Off) < seg.Ext.End && int(w.Off)+w.Len > seg.Ext.Start {
								pieces++
							}
						}
						frag := s.eff.GetTcpFragment().GetEnable()
						size := seg.Ext.End - seg.Ext.Start
						if !frag && pieces > 1 {
							o.Failf("fragment/off", "%s: written in %d pieces although the %s disabled TCP fragmentation (explicit=%v)", where, pieces, s.name, s.spec.FragEnable != nil)
							return
						}
						if frag && pieces < 2 && size >= 16 {
							o.Failf("fragment/on", "%s (%d bytes): written in one piece although the %s enabled TCP fragmentation", where, size, s.name)
							return
						}
					}
				}
			}
		}
	} else {
		dg, _ := pn.Snapshot()
		firstFrom := map[string]bool{}
		firstTo := map[string]bool{}
		later, patterned := map[string]int{}, map[string]int{}
		defer func() {
			// a random nonce matches a FIXED prefix of >= 2 bytes with probability
			// <= 2^-16 and is printable in its first >= 6 bytes with probability
			// < 0.3 %: four or more later datagrams that ALL match mean the pattern
			// is still being applied
			for k, n := range later {
				if o.Violation == "" && n >= 4 && patterned[k] == n {
					who := "server"
					if strings.HasPrefix(k, "true/") {
						who = "client"
					}
					o.Failf("nonce/apply-to-first-only", "the %s set applyToAllUDPPacket=false, yet all %d later datagrams of one cipher (%s) still carry the nonce pattern", who, n, k)
				}
			}
		}()
		for i, d := range e2e.DecodeDatagrams(dg, 7000, e2e.DefaultUsers, tStart, time.Now()) {
			if d.Seg == nil {
				continue
			}
			s := sides[d.FromClient]
			where := fmt.Sprintf("datagram %d from the %s %s", i, s.name, e2e.DescribeSeg(d.Seg))
			if !s.checkPadding(&o, d.Seg, where) || !s.checkData(&o, d.Seg, d.FromClient, clientLE, where) {
				return
			}
			first := false
			if d.FromClient {
				k := d.D.From.String()
				first = !firstFrom[k]
				firstFrom[k] = true
			} else {
				// the server keeps one cipher per client address and user (sessions
				// multiplexed on one client socket share it), so "the first UDP
				// packet" is the first datagram towards that address
				k := d.D.To.String()
				first = !firstTo[k]
				firstTo[k] = true
			}
			if (first || s.eff.GetNonce().GetApplyToAllUDPPacket()) && !s.checkNonce(&o, d.Seg.Nonce, where) {
				return
			}
			if !first && !s.eff.GetNonce().GetApplyToAllUDPPacket() {
				// applyToAllUDPPacket=false: later datagrams of the cipher carry an
				// ordinary random nonce; count how many still look patterned
				k := fmt.Sprintf("%v/%s", d.FromClient, map[bool]string{true: d.D.From.String(), false: d.D.To.String()}[d.FromClient])
				later[k]++
				if s.nonceLooksPatterned(d.Seg.Nonce) {
					patterned[k]++
				}
			}
		}
	}
	return
}

func TestC16Wire(t *testing.T) {
	pbt.Run(t, "C16", "wire", genWire, propWire)
}
