package c19

import (
	"testing"

	"verif/harness/pbt"
)

func FuzzC19Counter(f *testing.F) { pbt.Fuzz(f, "C19", "counter", genCase, prop) }
