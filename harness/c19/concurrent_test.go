// C19 (concurrent) — "every byte ... is counted once against that session's
// user ... sessions opened concurrently with accounting". Several sessions of
// one user start at the same moment and do what a server session does on its
// first byte: register the user's upload/download counters, then add to them,
// while a reader takes totals, windows and exports (what the quota check and a
// metrics dump do). The user's counter as the registry shows it afterwards must
// hold every increment. The schedule is sampled (spin barrier, many rounds with
// a user never seen before in each), not owned.
package c19

import (
	"fmt"
	"runtime"
	"sync"
	"sync/atomic"
	"testing"
	"time"

	"github.com/enfein/mieru/v3/pkg/metrics"
	"pgregory.net/rapid"

	"verif/harness/pbt"
)

type ConcCase struct {
	Workers [][]int64 `json:"workers"` // per concurrent session: its increments
	Rounds  int       `json:"rounds"`
	Reader  bool      `json:"reader,omitempty"`  // a concurrent reader (quota check / dump in progress)
	PreReg  int       `json:"preReg,omitempty"`  // 1: the group exists already (other metric of the user registered before), 2: the metric itself exists (user seen before)
	Stagger bool      `json:"stagger,omitempty"` // half of the sessions start a few hundred nanoseconds late
	Tag     uint32    `json:"tag"`
}

func genConc(t *rapid.T) ConcCase {
	var c ConcCase
	n := rapid.IntRange(2, 12).Draw(t, "nWorkers")
	for i := 0; i < n; i++ {
		var adds []int64
		for k := rapid.IntRange(1, 4).Draw(t, "nAdds"); k > 0; k-- {
			adds = append(adds, rapid.Int64Range(1, 1<<20).Draw(t, "delta"))
		}
		c.Workers = append(c.Workers, adds)
	}
	c.Rounds = rapid.IntRange(20, 120).Draw(t, "rounds")
	c.Reader = rapid.Bool().Draw(t, "reader")
	c.PreReg = rapid.SampledFrom([]int{0, 0, 0, 1, 2}).Draw(t, "preReg")
	c.Stagger = rapid.Bool().Draw(t, "stagger")
	c.Tag = rapid.Uint32().Draw(t, "tag")
	return c
}

var concSeq atomic.Int64

func propConc(c ConcCase) (o pbt.Outcome) {
	var want int64
	for _, w := range c.Workers {
		for _, d := range w {
			want += d
		}
	}
	caseNo := concSeq.Add(1)
	o.Label("workers=%d", len(c.Workers))
	o.Label("preReg=%d", c.PreReg)
	o.Label("reader=%v", c.Reader)
	o.NonTrivial = c.PreReg < 2 && len(c.Workers) >= 2
	for round := 0; round < c.Rounds; round++ {
		user := fmt.Sprintf("c19conc-%08x-%d-%d", c.Tag, caseNo, round)
		group := fmt.Sprintf(metrics.UserMetricGroupFormat, user)
		switch c.PreReg {
		case 1:
			metrics.RegisterMetric(group, metrics.UserMetricDownloadBytes, metrics.COUNTER_TIME_SERIES)
		case 2:
			metrics.RegisterMetric(group, metrics.UserMetricUploadBytes, metrics.COUNTER_TIME_SERIES)
		}
		var arrived atomic.Int32
		n := int32(len(c.Workers))
		var wg sync.WaitGroup
		stop := make(chan struct{})
		var readerWG sync.WaitGroup
		var readerBad atomic.Value
		if c.Reader {
			readerWG.Add(1)
			go func() {
				defer readerWG.Done()
				var last int64
				for {
					select {
					case <-stop:
						return
					default:
					}
					if g := metrics.GetMetricGroupByName(group); g != nil {
						if m, ok := g.GetMetric(metrics.UserMetricUploadBytes); ok {
							ctr := m.(*metrics.Counter)
							v := ctr.Load()
							if v < last || v > want {
								readerBad.Store(fmt.Sprintf("a reader saw the user's upload total go from %d to %d (everything added in the end: %d)", last, v, want))
							}
							last = v
							w := ctr.DeltaBetween(time.Now().Add(-time.Hour), time.Now().Add(time.Hour))
							if w < 0 || w > want {
								readerBad.Store(fmt.Sprintf("a window over the last hour reported %d, everything added in the end: %d", w, want))
							}
						}
					}
					runtime.Gosched()
				}
			}()
		}
		for i, adds := range c.Workers {
			wg.Add(1)
			go func(i int, adds []int64) {
				defer wg.Done()
				arrived.Add(1)
				for arrived.Load() < n {
					runtime.Gosched()
				}
				if c.Stagger && i%2 == 1 {
					for k := 0; k < 40*(i/2+1); k++ {
						_ = arrived.Load()
					}
				}
				m := metrics.RegisterMetric(group, metrics.UserMetricUploadBytes, metrics.COUNTER_TIME_SERIES)
				for _, d := range adds {
					m.(*metrics.Counter).Add(d)
				}
			}(i, adds)
		}
		wg.Wait()
		close(stop)
		readerWG.Wait()
		if msg, ok := readerBad.Load().(string); ok {
			o.Failf("concurrent/reader", "round %d: %s", round, msg)
			return
		}
		g := metrics.GetMetricGroupByName(group)
		if g == nil {
			o.Failf("concurrent/no-group", "round %d: %d sessions of user %s registered their counters and the registry has no group for the user", round, n, user)
			return
		}
		m, ok := g.GetMetric(metrics.UserMetricUploadBytes)
		if !ok {
			o.Failf("concurrent/no-metric", "round %d: the registry has no upload counter for user %s after %d sessions registered it", round, user, n)
			return
		}
		ctr := m.(*metrics.Counter)
		if got := ctr.Load(); got != want {
			o.Failf("concurrent/total", "round %d: %d sessions of a user (preReg=%d) started together and handed %d bytes to the application in total, the user's upload counter in the registry shows %d", round, n, c.PreReg, want, got)
			return
		}
		if got := ctr.DeltaBetween(time.Now().Add(-time.Hour), time.Now().Add(time.Hour)); got != want {
			o.Failf("concurrent/window", "round %d: %d bytes counted in total, the window (now-1h, now+1h) that a quota check would use reports %d", round, want, got)
			return
		}
		var sum int64
		for _, h := range metrics.ToMetricPB(ctr).GetHistory() {
			sum += h.GetDelta()
		}
		if sum != want {
			o.Failf("concurrent/history", "round %d: the exported history sums to %d, total %d", round, sum, want)
			return
		}
	}
	return
}

func TestC19Concurrent(t *testing.T) {
	pbt.Run(t, "C19", "concurrent", genConc, propConc)
}
