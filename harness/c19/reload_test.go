package c19

import (
	"context"
	"fmt"
	"os"
	"testing"
	"time"

	pb "github.com/enfein/mieru/v3/pkg/appctl/appctlpb"
	"github.com/enfein/mieru/v3/pkg/metrics"
	mpb "github.com/enfein/mieru/v3/pkg/metrics/metricspb"
	"google.golang.org/protobuf/proto"
	"pgregory.net/rapid"

	"verif/harness/e2e"
	"verif/harness/pbt"
	"verif/harness/simnet"
)

// (quota-reload) the allowance itself changes while the server runs: a reload
// of the user list that changes only a user's quotas (same name, same
// password) must bind new sessions at once - a lowered allowance refuses a
// user whose counted traffic is above it, a raised one serves a user who was
// refused before.

type QuotaReloadCase struct {
	UDP       bool  `json:"udp,omitempty"`
	PreloadKB int64 `json:"preloadKB"` // traffic counted an hour ago
	LowMB     int   `json:"lowMB"`     // an allowance below the counted traffic
	HighMB    int   `json:"highMB"`    // an allowance far above it
	Lower     bool  `json:"lower"`     // true: start high, reload to low; false: the reverse
	Others    int   `json:"others"`    // further users in the list (unchanged by the reload)
}

func genQuotaReload(t *rapid.T) QuotaReloadCase {
	c := QuotaReloadCase{
		UDP:       rapid.Bool().Draw(t, "udp"),
		PreloadKB: rapid.SampledFrom([]int64{2100, 3000, 6000}).Draw(t, "preloadKB"),
		HighMB:    rapid.SampledFrom([]int{100, 1024}).Draw(t, "highMB"),
		Lower:     rapid.Bool().Draw(t, "lower"),
		Others:    rapid.IntRange(0, 2).Draw(t, "others"),
	}
	c.LowMB = 1
	return c
}

func propQuotaReload(c QuotaReloadCase) (o pbt.Outcome) {
	name := fmt.Sprintf("qr%d-%d", os.Getpid(), userSeq.Add(1))
	group := fmt.Sprintf(metrics.UserMetricGroupFormat, name)
	// counted traffic of the user, an hour old, through the real dump path
	v := c.PreloadKB * 1024
	pbm := &mpb.Metric{Name: proto.String(metrics.UserMetricUploadBytes), Type: mpb.MetricType_COUNTER_TIME_SERIES.Enum(), Value: &v,
		History: []*mpb.History{histEntry(time.Now().Add(-time.Hour).UnixMilli(), v)}}
	if err := loadDump(allMetrics(group, pbm)); err != nil {
		o.Failf("harness", "load dump: %v", err)
		return
	}
	users := func(mb int) []*pb.User {
		list := []*pb.User{{Name: proto.String(name), Password: proto.String("pw"), Quotas: []*pb.Quota{{Days: proto.Int32(1), Megabytes: proto.Int32(int32(mb))}}}}
		for k := 0; k < c.Others; k++ {
			list = append(list, &pb.User{Name: proto.String(fmt.Sprintf("%s-other%d", name, k)), Password: proto.String("pw-other")})
		}
		return list
	}
	first, second := c.HighMB, c.LowMB
	if !c.Lower {
		first, second = c.LowMB, c.HighMB
	}
	cfg := e2e.Config{UDP: c.UDP, Users: []e2e.UserSpec{{Name: name, Password: "pw"}}, Quotas: map[int][][2]int32{0: {{1, int32(first)}}}, ServerMux: true, Multiplex: 1}
	env, err := e2e.Start(cfg, simnet.NewStreamNet(simnet.StreamOpts{}), simnet.NewPacketNet())
	if err != nil {
		o.Failf("start", "start: %v", err)
		return
	}
	defer env.StopBounded(3 * time.Second)
	// one attempt: is a new session of the user served?
	served := func(idx int) (bool, string) {
		ctx, cancel := context.WithTimeout(context.Background(), 12*time.Second)
		defer cancel()
		conn, err := env.Dial(ctx, idx)
		if err != nil {
			return false, "dial: " + err.Error()
		}
		defer conn.Close()
		sc, err := env.ServerSide(idx, 3*time.Second)
		if err != nil {
			return false, "server side: " + err.Error()
		}
		defer sc.Conn.Close()
		if _, err := sc.Conn.Write([]byte("pong")); err != nil {
			return false, "server write: " + err.Error()
		}
		buf := make([]byte, 4)
		conn.SetReadDeadline(time.Now().Add(5 * time.Second))
		got := 0
		for got < 4 {
			n, err := conn.Read(buf[got:])
			got += n
			if err != nil {
				return false, fmt.Sprintf("client read %d bytes: %v", got, err)
			}
		}
		return string(buf) == "pong", "ok"
	}
	wantFirst := c.Lower // high allowance first: served
	got, why := served(1)
	o.Label("lower=%v", c.Lower)
	o.Label("udp=%v", c.UDP)
	o.NonTrivial = true
	if got != wantFirst {
		o.Failf("quota-reload/before", "user with %d KiB counted an hour ago and an allowance of %d MB per day: new session served=%v (%s), want %v", c.PreloadKB, first, got, why, wantFirst)
		return
	}
	env.ReloadUsersProto(users(second))
	got, why = served(2)
	if got != !wantFirst {
		o.Failf("quota-reload/after", "after a completed reload that changed only the user's allowance from %d MB to %d MB per day (%d KiB counted an hour ago): new session served=%v (%s), want %v", first, second, c.PreloadKB, got, why, !wantFirst)
	}
	return
}

func TestC19QuotaReload(t *testing.T) {
	pbt.Run(t, "C19", "quota-reload", genQuotaReload, propQuotaReload)
}
