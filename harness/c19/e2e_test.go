package c19

import (
	"context"
	"fmt"
	"net"
	"os"
	"path/filepath"
	"sync"
	"sync/atomic"
	"testing"
	"time"

	"github.com/enfein/mieru/v3/pkg/metrics"
	mpb "github.com/enfein/mieru/v3/pkg/metrics/metricspb"
	"google.golang.org/protobuf/proto"
	"pgregory.net/rapid"

	"verif/harness/e2e"
	"verif/harness/pbt"
	"verif/harness/refproto"
	"verif/harness/simnet"
)

// (b) end to end: every byte a server session hands to / accepts from its
// application is counted once against that session's user; a user over quota
// is refused with the quota status and nothing is relayed; everybody else is
// served.

type QUser struct {
	QuotaMB   int   `json:"quotaMB"`   // 0 = no quota
	Days      int   `json:"days"`      // quota window
	PreloadKB int64 `json:"preloadKB"` // traffic counted before the sessions of this case (KiB)
	PreAgeH   int   `json:"preAgeH"`   // how many hours ago the pre-loaded traffic happened
	Up        []int `json:"up"`
	Down      []int `json:"down"`
	// Extra: further quotas of the user, all generous (never exceeded by this
	// case); ExtraFirst puts them in front of the main one in the list
	Extra      int  `json:"extra,omitempty"`
	ExtraFirst bool `json:"extraFirst,omitempty"`
}

type QuotaCase struct {
	UDP   bool    `json:"udp,omitempty"`
	Users []QUser `json:"users"`
	Salt  uint64  `json:"salt"`
}

var userSeq atomic.Uint64

func genQuota(t *rapid.T) QuotaCase {
	var c QuotaCase
	c.UDP = rapid.Bool().Draw(t, "udp")
	c.Salt = rapid.Uint64().Draw(t, "salt")
	n := rapid.IntRange(1, 3).Draw(t, "nUsers")
	for i := 0; i < n; i++ {
		var u QUser
		if rapid.IntRange(0, 2).Draw(t, "hasQuota") != 0 {
			u.QuotaMB = rapid.SampledFrom([]int{1, 2, 5}).Draw(t, "mb")
			u.Days = rapid.SampledFrom([]int{1, 7, 30}).Draw(t, "days")
			// just below / at / above the allowance, inside or outside the window
			u.PreloadKB = int64(u.QuotaMB)*1024 + rapid.SampledFrom([]int64{-1024, -1, 0, 1024, 1025, 5000}).Draw(t, "delta")
			if u.PreloadKB < 0 {
				u.PreloadKB = 0
			}
			u.PreAgeH = rapid.SampledFrom([]int{0, 1, u.Days*24 - 1, u.Days*24 + 2, u.Days * 48}).Draw(t, "age")
			u.Extra = rapid.SampledFrom([]int{0, 0, 1, 2}).Draw(t, "extraQuotas")
			u.ExtraFirst = rapid.Bool().Draw(t, "extraFirst")
		} else if rapid.Bool().Draw(t, "preloadNoQuota") {
			u.PreloadKB = 50000
		}
		for j := rapid.IntRange(0, 3).Draw(t, "nUp"); j > 0; j-- {
			u.Up = append(u.Up, rapid.SampledFrom([]int{1, 100, 1500, 20000, 32768, 32769, 100000, 262144}).Draw(t, "up"))
		}
		for j := rapid.IntRange(0, 3).Draw(t, "nDown"); j > 0; j-- {
			u.Down = append(u.Down, rapid.SampledFrom([]int{1, 100, 1500, 20000, 32768, 32769, 100000, 262144}).Draw(t, "down"))
		}
		c.Users = append(c.Users, u)
	}
	return c
}

func counter(user, name string) *metrics.Counter {
	return metrics.RegisterMetric(fmt.Sprintf(metrics.UserMetricGroupFormat, user), name, metrics.COUNTER_TIME_SERIES).(*metrics.Counter)
}

func propQuota(c QuotaCase) (o pbt.Outcome) {
	// unique user names per case: user metrics are process-global
	base := fmt.Sprintf("u%d-%d-", os.Getpid(), userSeq.Add(1))
	var users []e2e.UserSpec
	quotas := map[int][][2]int32{}
	for i, u := range c.Users {
		users = append(users, e2e.UserSpec{Name: fmt.Sprintf("%s%d", base, i), Password: fmt.Sprintf("pw%d", i)})
		if u.QuotaMB > 0 {
			q := [][2]int32{{int32(u.Days), int32(u.QuotaMB)}}
			for k := 0; k < u.Extra; k++ {
				generous := [2]int32{int32(60 + 30*k), int32(100000 + k)}
				if u.ExtraFirst {
					q = append([][2]int32{generous}, q...)
				} else {
					q = append(q, generous)
				}
			}
			quotas[i] = q
		}
	}
	standing := map[string]bool{}
	// pre-loaded traffic, placed in the past through the export/import API
	for i, u := range c.Users {
		if u.PreloadKB == 0 {
			continue
		}
		// A restarted server reads the dump before any of the user's counters
		// exists in the process; a long-running one may load it over registered
		// counters. Both happen: even user indices model the restart.
		var pbm *mpb.Metric
		if i%2 == 0 {
			pbm = &mpb.Metric{Name: proto.String(metrics.UserMetricUploadBytes), Type: mpb.MetricType_COUNTER_TIME_SERIES.Enum()}
		} else {
			up := counter(users[i].Name, metrics.UserMetricUploadBytes)
			counter(users[i].Name, metrics.UserMetricDownloadBytes)
			pbm = metrics.ToMetricPB(up)
		}
		ts := time.Now().Add(-time.Duration(u.PreAgeH) * time.Hour).UnixMilli()
		pbm.History = nil
		v := u.PreloadKB * 1024
		pbm.Value = &v
		one := v
		hist := histEntry(ts, one)
		pbm.History = append(pbm.History, hist)
		m, err := metrics.FromMetricPB(pbm)
		if err != nil {
			o.Failf("harness", "FromMetricPB: %v", err)
			return
		}
		// copy the aged state into the registered counter
		src := metrics.ToMetricPB(m)
		all := allMetrics(fmt.Sprintf(metrics.UserMetricGroupFormat, users[i].Name), src)
		if err := loadDump(all); err != nil {
			o.Failf("harness", "load dump: %v", err)
			return
		}
	}
	for i, u := range c.Users {
		st := "none"
		if u.QuotaMB > 0 {
			inWindow := u.PreAgeH < u.Days*24
			switch {
			case inWindow && u.PreloadKB >= int64(u.QuotaMB+1)*1024:
				st = "over"
			case !inWindow || u.PreloadKB <= int64(u.QuotaMB)*1024-100:
				st = "within"
			default:
				st = "band" // granularity: not asserted
			}
			// ages within two hours of the window edge are not asserted either
			if d := u.PreAgeH - u.Days*24; d >= -2 && d <= 2 {
				st = "band"
			}
		}
		standing[st] = true
		o.Label("standing=%s", st)
		_ = i
	}
	o.NonTrivial = len(standing) >= 2 || standing["over"]
	o.Label("udp=%v", c.UDP)

	for i, u := range c.Users {
		cfg := e2e.Config{UDP: c.UDP, Users: users, ClientUser: i, Quotas: quotas}
		sn := simnet.NewStreamNet(simnet.StreamOpts{Record: true})
		pn := simnet.NewPacketNet()
		tStart := time.Now()
		env, err := e2e.Start(cfg, sn, pn)
		if err != nil {
			o.Failf("start", "start: %v", err)
			return
		}
		upC := counter(users[i].Name, metrics.UserMetricUploadBytes)
		downC := counter(users[i].Name, metrics.UserMetricDownloadBytes)
		up0, down0 := upC.Load(), downC.Load()
		over := u.QuotaMB > 0 && u.PreAgeH < u.Days*24-2 && u.PreloadKB >= int64(u.QuotaMB+1)*1024
		within := u.QuotaMB == 0 || u.PreAgeH > u.Days*24+2 || u.PreloadKB <= int64(u.QuotaMB)*1024-100
		var conn net.Conn
		var derr error
		if over {
			ctx, cancel := context.WithTimeout(context.Background(), 15*time.Second)
			conn, derr = env.Dial(ctx, 0)
			cancel()
		}
		if over {
			// refused with the quota status, nothing relayed
			if derr == nil {
				buf := make([]byte, 1)
				conn.SetReadDeadline(time.Now().Add(2 * time.Second))
				_, rerr := conn.Read(buf)
				conn.Close()
				if rerr == nil {
					env.StopBounded(3 * time.Second)
					o.Failf("quota-not-enforced", "user %d is %d KiB over a %d MB quota (traffic %d h ago, window %d d) yet a new session was served", i, u.PreloadKB-int64(u.QuotaMB)*1024, u.QuotaMB, u.PreAgeH, u.Days)
					return
				}
			}
			// (mieru hands the already closed session and its SOCKS5 request to the
			// application, whose reply then fails; what matters is that nothing is
			// relayed to the client and the refusal carries the quota status)
			// the refusal carries the quota status (close request with status 1)
			sawQuotaStatus := false
			for end := time.Now().Add(3 * time.Second); !sawQuotaStatus && time.Now().Before(end); time.Sleep(10 * time.Millisecond) {
				if c.UDP {
					dg, _ := pn.Snapshot()
					for _, d := range e2e.DecodeDatagrams(dg, 7000, users, tStart, time.Now()) {
						if d.Seg != nil && !d.FromClient && d.Seg.Meta.Proto == refproto.CloseSessionRequest && d.Seg.Meta.Status == 1 {
							sawQuotaStatus = true
						}
					}
				} else {
					for _, l := range e2e.DecodeLinks(sn, users, tStart, time.Now()) {
						for _, seg := range l.S2C {
							if seg.Meta.Proto == refproto.CloseSessionRequest && seg.Meta.Status == 1 {
								sawQuotaStatus = true
							}
						}
					}
				}
			}
			env.StopBounded(3 * time.Second)
			if !sawQuotaStatus {
				var wire []string
				for _, l := range e2e.DecodeLinks(sn, users, tStart, time.Now()) {
					for _, seg := range l.S2C {
						wire = append(wire, e2e.DescribeSeg(seg))
					}
					wire = append(wire, fmt.Sprintf("decodeErr=%v residue=%d raw=%d c2s=%d", l.ErrS2C, l.ResS2C, len(l.RawS2C), len(l.C2S)))
				}
				o.Failf("quota-status", "user %d over quota was refused without the quota status on the wire (dial error: %v; accepts=%d; upload counter now %d; server->client wire: %v)", i, derr, env.Accepts(), upC.Load(), wire)
				return
			}
			// (the application may read the SOCKS5 request of the refused session,
			// and of a re-created one when the client's open request is
			// retransmitted on UDP; that is not relaying)
			if downC.Load() != down0 || upC.Load()-up0 > 4*int64(e2e.Socks5RequestLen(0)) {
				sig := "quota-relayed"
				if downC.Load()-down0 <= 20 && upC.Load()-up0 <= 4*int64(e2e.Socks5RequestLen(0)) {
					// only the application's immediate SOCKS5 reply slipped through
					sig = "quota-relayed/handshake-reply-raced-the-refusal"
				}
				o.Failf(sig, "user %d over quota: %d upload / %d download bytes were relayed on a refused session", i, upC.Load()-up0, downC.Load()-down0)
				return
			}
			continue
		}
		// run the transfer and compare the accounting
		res := e2e.RunTransfer(env, []e2e.SessProg{{Up: e2e.DirProg{Writes: u.Up}, Down: e2e.DirProg{Writes: u.Down}}}, e2e.TransferOpts{Salt: c.Salt + uint64(i), StallAfter: 20 * time.Second, MaxWall: 40 * time.Second, IdxBase: 10})
		env.StopBounded(3 * time.Second)
		s := res.Sessions[0]
		if s.OpenErr != "" || !s.Up.DoneReading || !s.Down.DoneReading {
			if within {
				o.Failf("wrongly-refused", "user %d is within its allowance (quota %d MB, counted %d KiB, %d h ago) but was not served: %+v", i, u.QuotaMB, u.PreloadKB, u.PreAgeH, s)
				return
			}
			continue
		}
		if s.User != users[i].Name {
			o.Failf("attribution", "session of user %q attributed to %q", users[i].Name, s.User)
			return
		}
		// bytes the server application read = SOCKS5 request + upstream data
		req := int64(e2e.Socks5RequestLen(10))
		wantUp := req + sum(u.Up)
		wantDown := int64(10) + sum(u.Down) // SOCKS5 response
		gotUp, gotDown := upC.Load()-up0, downC.Load()-down0
		if gotUp != wantUp || gotDown != wantDown {
			o.Failf("accounting", "user %d: the server application read %d and wrote %d bytes, the user's counters grew by %d and %d", i, wantUp, wantDown, gotUp, gotDown)
			return
		}
		// nobody else was charged
		for j := range c.Users {
			if j == i {
				continue
			}
			// other users' counters may not exist yet; Load on a fresh counter is 0
		}
	}
	return
}

func sum(xs []int) int64 {
	var n int64
	for _, x := range xs {
		n += int64(x)
	}
	return n
}

func TestC19Quota(t *testing.T) {
	pbt.Run(t, "C19", "quota", genQuota, propQuota)
}

func histEntry(tsMilli, delta int64) *mpb.History {
	return &mpb.History{TimeUnixMilli: proto.Int64(tsMilli), Delta: proto.Int64(delta), RollUp: mpb.RollUpLabel_NO_ROLL_UP.Enum()}
}

func allMetrics(group string, m *mpb.Metric) *mpb.AllMetrics {
	return &mpb.AllMetrics{Groups: []*mpb.MetricGroup{{Name: proto.String(group), Metrics: []*mpb.Metric{m}}}}
}

var dumpMu sync.Mutex

// loadDump feeds a metrics dump file through the real load path.
func loadDump(all *mpb.AllMetrics) error {
	dumpMu.Lock()
	defer dumpMu.Unlock()
	dir, err := os.MkdirTemp("", "c19q-")
	if err != nil {
		return err
	}
	defer os.RemoveAll(dir)
	path := filepath.Join(dir, "metrics.pb")
	raw, err := proto.Marshal(all)
	if err != nil {
		return err
	}
	if err := os.WriteFile(path, raw, 0o600); err != nil {
		return err
	}
	metrics.SetMetricsDumpFilePath(path)
	defer metrics.SetMetricsDumpFilePath("")
	return metrics.LoadMetricsFromDump()
}

// (c) crossing the allowance while connected: a user starts within its quota,
// a first session pushes the counted traffic at least 1 MiB past it, and a
// second session opened afterwards - multiplexed on the connection that is
// already authenticated, or on a new one - must be refused like any other.

type CrossCase struct {
	UDP       bool   `json:"udp,omitempty"`
	Multiplex int    `json:"multiplex"` // 0 = every session gets its own connection
	QuotaMB   int    `json:"quotaMB"`
	Days      int    `json:"days"`
	MarginKB  int    `json:"marginKB"` // the user starts this far below the allowance
	UpKB      int    `json:"upKB"`
	DownKB    int    `json:"downKB"`
	Chunk     int    `json:"chunk,omitempty"` // size of the applications' Write calls (default 32768; larger ones span several protocol data units)
	KeepOpen  bool   `json:"keepOpen,omitempty"` // the first session stays open while the second is dialled
	Salt      uint64 `json:"salt"`
}

func genCross(t *rapid.T) CrossCase {
	c := CrossCase{
		UDP:       rapid.IntRange(0, 2).Draw(t, "udp") == 0,
		Multiplex: rapid.SampledFrom([]int{0, 1, 3, 4}).Draw(t, "multiplex"),
		QuotaMB:   rapid.SampledFrom([]int{1, 2, 5}).Draw(t, "mb"),
		Days:      rapid.SampledFrom([]int{1, 7, 30}).Draw(t, "days"),
		MarginKB:  rapid.SampledFrom([]int{100, 150, 400}).Draw(t, "margin"),
		KeepOpen:  rapid.Bool().Draw(t, "keepOpen"),
		Salt:      rapid.Uint64().Draw(t, "salt"),
	}
	if c.UDP && c.MarginKB > 150 {
		c.MarginKB = 150 // keep the UDP transfer near 1.2 MiB
	}
	// the first session moves margin + 1 MiB + a little, split between the directions
	total := c.MarginKB + 1024 + rapid.SampledFrom([]int{40, 200}).Draw(t, "extra")
	c.UpKB = total * rapid.SampledFrom([]int{10, 50, 90}).Draw(t, "upShare") / 100
	c.DownKB = total - c.UpKB
	c.Chunk = rapid.SampledFrom([]int{32768, 32768, 65536, 100000, 262144}).Draw(t, "chunk")
	return c
}

func preloadUpload(user string, kib int64, age time.Duration) error {
	up := counter(user, metrics.UserMetricUploadBytes)
	counter(user, metrics.UserMetricDownloadBytes)
	pbm := metrics.ToMetricPB(up)
	v := kib * 1024
	pbm.Value = &v
	pbm.History = []*mpb.History{histEntry(time.Now().Add(-age).UnixMilli(), v)}
	m, err := metrics.FromMetricPB(pbm)
	if err != nil {
		return err
	}
	return loadDump(allMetrics(fmt.Sprintf(metrics.UserMetricGroupFormat, user), metrics.ToMetricPB(m)))
}

func chunks(totalKB, chunk int) []int {
	var ws []int
	for rem := totalKB * 1024; rem > 0; {
		w := chunk
		if w <= 0 {
			w = 32768
		}
		if rem < w {
			w = rem
		}
		ws = append(ws, w)
		rem -= w
	}
	return ws
}

func propCross(c CrossCase) (o pbt.Outcome) {
	name := fmt.Sprintf("x%d-%d", os.Getpid(), userSeq.Add(1))
	users := []e2e.UserSpec{{Name: name, Password: "pw"}}
	if err := preloadUpload(name, int64(c.QuotaMB)*1024-int64(c.MarginKB), time.Hour); err != nil {
		o.Failf("harness", "preload: %v", err)
		return
	}
	cfg := e2e.Config{UDP: c.UDP, Users: users, Multiplex: c.Multiplex, Quotas: map[int][][2]int32{0: {{int32(c.Days), int32(c.QuotaMB)}}}}
	sn := simnet.NewStreamNet(simnet.StreamOpts{Record: true})
	pn := simnet.NewPacketNet()
	tStart := time.Now()
	env, err := e2e.Start(cfg, sn, pn)
	if err != nil {
		o.Failf("start", "start: %v", err)
		return
	}
	defer env.StopBounded(3 * time.Second)
	upC, downC := counter(name, metrics.UserMetricUploadBytes), counter(name, metrics.UserMetricDownloadBytes)
	up0, down0 := upC.Load(), downC.Load()
	o.Label("udp=%v", c.UDP)
	o.Label("multiplex=%d", c.Multiplex)
	o.Label("keepOpen=%v", c.KeepOpen)

	// first session: within the allowance when it opens
	res := e2e.RunTransfer(env, []e2e.SessProg{{Up: e2e.DirProg{Writes: chunks(c.UpKB, c.Chunk)}, Down: e2e.DirProg{Writes: chunks(c.DownKB, c.Chunk)}}},
		e2e.TransferOpts{Salt: c.Salt, StallAfter: 30 * time.Second, MaxWall: 90 * time.Second, KeepOpen: c.KeepOpen})
	s := res.Sessions[0]
	if s.OpenErr != "" || !s.Up.DoneReading || !s.Down.DoneReading {
		if res.Stalled || s.OpenErr != "" {
			o.Failf("wrongly-refused", "a user %d KiB below its %d MB allowance was not served: %+v", c.MarginKB, c.QuotaMB, s)
		} else {
			o.Inconclusive = "first session incomplete at the wall budget"
		}
		return
	}
	wantUp := int64(e2e.Socks5RequestLen(0)) + int64(c.UpKB)*1024
	wantDown := int64(10) + int64(c.DownKB)*1024
	if gotUp, gotDown := upC.Load()-up0, downC.Load()-down0; gotUp != wantUp || gotDown != wantDown {
		o.Failf("accounting", "the server application read %d and wrote %d bytes, the user's counters grew by %d and %d", wantUp, wantDown, gotUp, gotDown)
		return
	}
	over := (upC.Load()+downC.Load())/1048576 > int64(c.QuotaMB)
	if !over {
		o.Inconclusive = "the first session did not cross the allowance"
		return
	}
	linksBefore := len(sn.Links())
	up1, down1 := upC.Load(), downC.Load()

	// second session: must be refused
	ctx, cancel := context.WithTimeout(context.Background(), 15*time.Second)
	conn, derr := env.Dial(ctx, 1)
	cancel()
	if derr == nil {
		buf := make([]byte, 1)
		conn.SetReadDeadline(time.Now().Add(2 * time.Second))
		_, rerr := conn.Read(buf)
		conn.Close()
		if rerr == nil {
			o.Failf("quota-not-enforced", "the user is now %d KiB over its %d MB quota, yet a new session was served", (upC.Load()+downC.Load())/1024-int64(c.QuotaMB)*1024, c.QuotaMB)
			return
		}
	}
	reused := !c.UDP && len(sn.Links()) == linksBefore
	o.Label("secondSessionOnTheSameConnection=%v", reused)
	o.NonTrivial = reused || c.UDP
	sawQuotaStatus := false
	for end := time.Now().Add(3 * time.Second); !sawQuotaStatus && time.Now().Before(end); time.Sleep(10 * time.Millisecond) {
		if c.UDP {
			dg, _ := pn.Snapshot()
			for _, d := range e2e.DecodeDatagrams(dg, 7000, users, tStart, time.Now()) {
				if d.Seg != nil && !d.FromClient && d.Seg.Meta.Proto == refproto.CloseSessionRequest && d.Seg.Meta.Status == 1 {
					sawQuotaStatus = true
				}
			}
		} else {
			for _, l := range e2e.DecodeLinks(sn, users, tStart, time.Now()) {
				for _, seg := range l.S2C {
					if seg.Meta.Proto == refproto.CloseSessionRequest && seg.Meta.Status == 1 {
						sawQuotaStatus = true
					}
				}
			}
		}
	}
	relUp, relDown := upC.Load()-up1, downC.Load()-down1
	if relDown > 20 || relUp > 4*int64(e2e.Socks5RequestLen(1)) {
		o.Failf("quota-relayed", "over quota, second session (same connection: %v): %d upload / %d download bytes were relayed", reused, relUp, relDown)
		return
	}
	if !sawQuotaStatus {
		o.Failf("quota-status-after-crossing", "the second session of a user now over its quota was refused without the quota status on the wire (same connection: %v, dial error: %v)", reused, derr)
		return
	}
	if relDown != 0 {
		o.Failf("quota-relayed/handshake-reply-raced-the-refusal", "over quota, second session: the application's %d-byte immediate reply was relayed before the refusal", relDown)
	}
	return
}

func TestC19Cross(t *testing.T) {
	pbt.Run(t, "C19", "cross", genCross, propCross)
}
