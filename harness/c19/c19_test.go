// C19 — traffic accounting is conserved; quotas bind exactly the user who
// exceeded them. (a) counter histories through the exported metrics API;
// (b) end to end (e2e_test.go). See DESIGN.md section 3.19.
package c19

import (
	"bytes"
	"fmt"
	"os"
	"path/filepath"
	"testing"
	"time"

	"github.com/enfein/mieru/v3/pkg/metrics"
	mpb "github.com/enfein/mieru/v3/pkg/metrics/metricspb"
	"google.golang.org/protobuf/proto"
	"pgregory.net/rapid"

	"verif/harness/pbt"
)

type Entry struct {
	AgeMs int64 `json:"ageMs"` // how long before "now" the increment happened
	Delta int64 `json:"delta"`
}

type Op struct {
	Kind  int   `json:"k"`           // 7 = dump, N further increments of Delta, then the (by now older) dump is loaded again onto the live counter; 0 add, 1 burn (Load/Name/Type calls), 2 force roll-up, 3 age (export, shift into the past, re-import), 4 reimport, 5 query, 6 file dump+load
	Delta int64 `json:"d,omitempty"` // add
	N     int   `json:"n,omitempty"` // burn count
	AgeMs int64 `json:"age,omitempty"`
	T1Ms  int64 `json:"t1,omitempty"` // query window, ages before now
	T2Ms  int64 `json:"t2,omitempty"`
}

type Case struct {
	Initial []Entry `json:"initial"`
	Ops     []Op    `json:"ops"`
	Tag     uint32  `json:"tag"`
}

var ageChoices = []int64{0, 1, 500, 999, 1000, 1999, 2000, 2001, 59000, 60000, 61000, 119000, 120000, 121000, 3599000, 3600000, 7199000, 7200000, 7201000,
	86399000, 86400000, 86401000, 8 * 86400000, 8*86400000 + 1000, 30 * 86400000, 400 * 86400000}

func genAge(t *rapid.T, label string) int64 {
	if rapid.Bool().Draw(t, label+"?") {
		return rapid.SampledFrom(ageChoices).Draw(t, label)
	}
	return rapid.Int64Range(0, 40*86400000).Draw(t, label)
}

func genCase(t *rapid.T) Case {
	var c Case
	c.Tag = rapid.Uint32().Draw(t, "tag")
	n := rapid.IntRange(0, 30).Draw(t, "nInitial")
	for i := 0; i < n; i++ {
		e := Entry{AgeMs: genAge(t, "age"), Delta: rapid.Int64Range(1, 1<<40).Draw(t, "delta")}
		if i > 0 && rapid.IntRange(0, 2).Draw(t, "burst") == 0 {
			e.AgeMs = c.Initial[i-1].AgeMs // burst within a millisecond
		}
		c.Initial = append(c.Initial, e)
	}
	// oldest first
	for i := 0; i < len(c.Initial); i++ {
		for j := i + 1; j < len(c.Initial); j++ {
			if c.Initial[j].AgeMs > c.Initial[i].AgeMs {
				c.Initial[i], c.Initial[j] = c.Initial[j], c.Initial[i]
			}
		}
	}
	m := rapid.IntRange(1, 12).Draw(t, "nOps")
	for i := 0; i < m; i++ {
		op := Op{Kind: rapid.SampledFrom([]int{0, 0, 1, 2, 2, 3, 3, 3, 4, 5, 5, 0, 1, 2, 3, 5, 3, 2, 5, 6, 7, 7}).Draw(t, "kind")}
		switch op.Kind {
		case 0:
			op.Delta = rapid.Int64Range(0, 1<<40).Draw(t, "d")
		case 1:
			op.N = rapid.SampledFrom([]int{1, 7, 499, 999, 1000, 1001}).Draw(t, "n")
		case 3:
			op.AgeMs = rapid.SampledFrom([]int64{1500, 2500, 61000, 121000, 3600000, 7300000, 86400000, 9 * 86400000}).Draw(t, "shift")
		case 7:
			op.Delta = rapid.Int64Range(1, 1<<30).Draw(t, "dAfterDump")
			op.N = rapid.IntRange(1, 3).Draw(t, "addsAfterDump")
		case 5:
			op.T1Ms = genAge(t, "t1")
			op.T2Ms = genAge(t, "t2")
			if op.T2Ms > op.T1Ms {
				op.T1Ms, op.T2Ms = op.T2Ms, op.T1Ms
			}
		}
		c.Ops = append(c.Ops, op)
	}
	return c
}

func exportPB(c *metrics.Counter) *mpb.Metric {
	return metrics.ToMetricPB(c)
}

var caseSeq int

func prop(c Case) (o pbt.Outcome) {
	now := time.Now()
	src := &mpb.Metric{Name: proto.String("bytes"), Type: mpb.MetricType_COUNTER_TIME_SERIES.Enum()}
	var total int64
	for _, e := range c.Initial {
		src.History = append(src.History, &mpb.History{TimeUnixMilli: proto.Int64(now.UnixMilli() - e.AgeMs), Delta: proto.Int64(e.Delta), RollUp: mpb.RollUpLabel_NO_ROLL_UP.Enum()})
		total += e.Delta
	}
	src.Value = proto.Int64(total)
	m, err := metrics.FromMetricPB(src)
	if err != nil {
		o.Failf("harness", "FromMetricPB: %v", err)
		return
	}
	ctr := m.(*metrics.Counter)
	merged := false
	// after an older dump was loaded onto a live counter the history is the
	// dump's: it may sum to less than the total, never to more
	staleHistory := false
	rollups := 0
	modelEntries := len(c.Initial)

	// every export is kept: it is what a dump in progress (DumpMetricsNow, the
	// GetUsers RPC) holds between taking the snapshot and serialising it, and
	// it must keep describing the counter as it was at that moment
	type snap struct {
		step string
		pbm  *mpb.Metric
		raw  []byte
	}
	var snaps []snap
	detMarshal := proto.MarshalOptions{Deterministic: true}
	check := func(step string) bool {
		for _, sn := range snaps {
			now, _ := detMarshal.Marshal(sn.pbm)
			if !bytes.Equal(now, sn.raw) {
				var sum int64
				for _, h := range sn.pbm.History {
					sum += h.GetDelta()
				}
				o.Failf("snapshot", "%s: the export taken at [%s] changed afterwards: its history now sums to %d, its value is %d", step, sn.step, sum, sn.pbm.GetValue())
				return false
			}
		}
		if got := ctr.Load(); got != total {
			o.Failf("total", "%s: Load() = %d, sum of increments = %d", step, got, total)
			return false
		}
		pbm := exportPB(ctr)
		var sum int64
		var prev int64 = -1 << 62
		for i, h := range pbm.History {
			sum += h.GetDelta()
			if h.GetTimeUnixMilli() < prev {
				o.Failf("order", "%s: history entry %d has time %d before its predecessor %d", step, i, h.GetTimeUnixMilli(), prev)
				return false
			}
			prev = h.GetTimeUnixMilli()
			if h.GetDelta() < 0 {
				o.Failf("total", "%s: history entry %d has negative delta %d", step, i, h.GetDelta())
				return false
			}
		}
		if sum != total && !(staleHistory && sum < total) {
			o.Failf("total", "%s: history sums to %d, total is %d (%d entries)", step, sum, total, len(pbm.History))
			return false
		}
		if pbm.GetValue() != total {
			o.Failf("total", "%s: exported value %d, total %d", step, pbm.GetValue(), total)
			return false
		}
		// the whole time line reports exactly the total
		if d := ctr.DeltaBetween(time.Unix(0, 0), time.Now().Add(time.Hour)); d != total && !(staleHistory && d >= 0 && d < total) {
			o.Failf("window", "%s: DeltaBetween(epoch, future) = %d, total %d", step, d, total)
			return false
		}
		if len(pbm.History) < modelEntries {
			merged = true
		}
		if len(snaps) < 6 {
			raw, _ := detMarshal.Marshal(pbm)
			snaps = append(snaps, snap{step, pbm, raw})
		}
		return true
	}
	if !check("after import") {
		return
	}
	for i, op := range c.Ops {
		step := fmt.Sprintf("op %d kind %d", i, op.Kind)
		switch op.Kind {
		case 0:
			ctr.Add(op.Delta)
			total += op.Delta
			if op.Delta > 0 {
				modelEntries++
			}
		case 1:
			for k := 0; k < op.N; k++ {
				switch k % 3 {
				case 0:
					ctr.Load()
				case 1:
					ctr.Name()
				default:
					ctr.Type()
				}
			}
		case 2:
			// roll-up runs when the operation counter hits a multiple of 1000
			// inside an Add; 1000 consecutive increments guarantee one.
			for k := 0; k < 1000; k++ {
				ctr.Add(1)
			}
			total += 1000
			modelEntries += 1000
			rollups++
		case 3, 4:
			pbm := proto.Clone(exportPB(ctr)).(*mpb.Metric)
			if op.Kind == 3 {
				for _, h := range pbm.History {
					h.TimeUnixMilli = proto.Int64(h.GetTimeUnixMilli() - op.AgeMs)
				}
			}
			raw, err := proto.Marshal(pbm)
			if err != nil {
				o.Failf("harness", "marshal: %v", err)
				return
			}
			back := &mpb.Metric{}
			proto.Unmarshal(raw, back)
			m2, err := metrics.FromMetricPB(back)
			if err != nil {
				o.Failf("reimport", "%s: FromMetricPB rejected an exported metric: %v", step, err)
				return
			}
			ctr = m2.(*metrics.Counter)
		case 5:
			n := time.Now()
			t1 := n.Add(-time.Duration(op.T1Ms) * time.Millisecond)
			t2 := n.Add(-time.Duration(op.T2Ms) * time.Millisecond)
			d := ctr.DeltaBetween(t1, t2)
			if d < 0 || d > total {
				o.Failf("window", "%s: DeltaBetween(now-%dms, now-%dms) = %d outside [0, total=%d]", step, op.T1Ms, op.T2Ms, d, total)
				return
			}
			// widening a window never reports less
			if d0 := ctr.DeltaBetween(t1.Add(-time.Hour), t2); d0 < d {
				o.Failf("window", "%s: widening the window reports less (%d < %d)", step, d0, d)
				return
			}
		case 6:
			// true dump + load through a file and the process-wide registry
			caseSeq++
			group := fmt.Sprintf("c19-%d-%d-%d", c.Tag, os.Getpid(), caseSeq)
			reg := metrics.RegisterMetric(group, "bytes", metrics.COUNTER_TIME_SERIES).(*metrics.Counter)
			dir, _ := os.MkdirTemp("", "c19-")
			path := filepath.Join(dir, "metrics.pb")
			all := &mpb.AllMetrics{Groups: []*mpb.MetricGroup{{Name: proto.String(group), Metrics: []*mpb.Metric{exportPB(ctr)}}}}
			raw, _ := proto.Marshal(all)
			os.WriteFile(path, raw, 0o600)
			metrics.SetMetricsDumpFilePath(path)
			err := metrics.LoadMetricsFromDump()
			if err == nil {
				err = metrics.DumpMetricsNow()
			}
			metrics.SetMetricsDumpFilePath("")
			os.RemoveAll(dir)
			if err != nil {
				o.Failf("dump", "%s: dump/load failed: %v", step, err)
				return
			}
			ctr = reg
		case 7:
			// dump, more traffic, then the older dump is loaded again in the same
			// process: totals never go backwards
			caseSeq++
			group := fmt.Sprintf("c19-%d-%d-%d", c.Tag, os.Getpid(), caseSeq)
			reg := metrics.RegisterMetric(group, "bytes", metrics.COUNTER_TIME_SERIES).(*metrics.Counter)
			dir, _ := os.MkdirTemp("", "c19-")
			path := filepath.Join(dir, "metrics.pb")
			all := &mpb.AllMetrics{Groups: []*mpb.MetricGroup{{Name: proto.String(group), Metrics: []*mpb.Metric{exportPB(ctr)}}}}
			raw, _ := proto.Marshal(all)
			os.WriteFile(path, raw, 0o600)
			metrics.SetMetricsDumpFilePath(path)
			err := metrics.LoadMetricsFromDump()
			if err == nil && reg.Load() != total {
				metrics.SetMetricsDumpFilePath("")
				os.RemoveAll(dir)
				o.Failf("dump", "%s: a dump of a counter holding %d, loaded into a fresh counter, gives %d", step, total, reg.Load())
				return
			}
			for k := 0; k < op.N; k++ {
				reg.Add(op.Delta)
				total += op.Delta
				modelEntries++
			}
			if err == nil {
				err = metrics.LoadMetricsFromDump() // the same file again: by now it is older than the counter
			}
			metrics.SetMetricsDumpFilePath("")
			os.RemoveAll(dir)
			if err != nil {
				o.Failf("dump", "%s: dump/load failed: %v", step, err)
				return
			}
			if got := reg.Load(); got < total {
				o.Failf("total-decreased", "%s: the counter held %d; loading a dump taken %d increments earlier (value %d) set it back to %d", step, total, op.N, total-int64(op.N)*op.Delta, got)
				return
			}
			ctr = reg
			staleHistory = true
			modelEntries = 0
		}
		if !check(step) {
			return
		}
	}
	o.NonTrivial = merged
	o.Label("merged=%v", merged)
	o.Label("rollups=%d", rollups)
	o.Label("initial=%d", len(c.Initial))
	return
}

func TestC19Counter(t *testing.T) {
	pbt.Run(t, "C19", "counter", genCase, prop)
}
