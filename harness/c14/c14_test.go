// C14 — no datagram exceeds the configured MTU; no payload exceeds its length
// field. See DESIGN.md section 3.14.
package c14

import (
	"fmt"
	"testing"
	"time"

	"pgregory.net/rapid"

	"verif/harness/e2e"
	"verif/harness/pbt"
	"verif/harness/refproto"
	"verif/harness/simnet"
	"verif/harness/udprun"
)

// gen biases the shared UDP generator towards the configuration sweep of C14:
// padding maxima, low-entropy modes, MTU edges, writes of 1..3 fragments.
func gen(t *rapid.T) udprun.Case {
	c := udprun.Gen(t)
	if rapid.Bool().Draw(t, "sweep") {
		pads := []int32{0, 1, 127, 128, 254, 255}
		for _, p := range []*e2e.PatternSpec{&c.Cfg.ClientPattern, &c.Cfg.ServerPattern} {
			p.Nil = false
			v1 := rapid.SampledFrom(pads).Draw(t, "padMid")
			v2 := rapid.SampledFrom(pads).Draw(t, "padEnd")
			p.PadMid, p.PadEnd = &v1, &v2
			if rapid.Bool().Draw(t, "padMidUnset") {
				p.PadMid = nil
			}
			le := rapid.Int32Range(0, 4).Draw(t, "le")
			p.LEMode = &le
		}
	}
	// padding pressure: many single-segment writes that leave a room of
	// 0..600 bytes in the datagram (where middle and end padding have to
	// share what is left), with large padding maxima and low entropy off
	if rapid.IntRange(0, 2).Draw(t, "pressure") == 0 {
		room := rapid.SampledFrom([]int{0, 1, 100, 254, 255, 256, 280, 300, 400, 509, 510, 600}).Draw(t, "room")
		for _, p := range []*e2e.PatternSpec{&c.Cfg.ClientPattern, &c.Cfg.ServerPattern} {
			p.Nil = false
			v1, v2, off := int32(255), int32(255), int32(0)
			p.PadMid, p.PadEnd, p.LEMode = &v1, &v2, &off
			if rapid.IntRange(0, 3).Draw(t, "padSmall") == 0 {
				v1 = rapid.SampledFrom([]int32{1, 64, 128, 200}).Draw(t, "padMidP")
			}
		}
		mtu := func(m int) int {
			if m == 0 {
				return 1400
			}
			return m
		}
		const overhead = 88 // nonce + metadata + two tags (protocol.md)
		for i := range c.Progs {
			var up, down []int
			n := rapid.IntRange(15, 40).Draw(t, "nPressure")
			for j := 0; j < n; j++ {
				jitter := rapid.IntRange(0, 40).Draw(t, "jitter")
				up = append(up, mtu(c.Cfg.ClientMTU)-overhead-room-jitter)
				down = append(down, mtu(c.Cfg.ServerMTU)-overhead-room-jitter)
			}
			c.Progs[i].Up.Writes, c.Progs[i].Down.Writes = up, down
			if i >= 1 {
				// keep the case small: pressure on the first two sessions only
				break
			}
		}
		// the open request with a piggybacked first write (request + data up to
		// 1024 bytes) is the largest session segment: aim it at a small MTU
		if c.Cfg.NoWait && rapid.Bool().Draw(t, "bigOpen") {
			c.Cfg.ClientMTU = rapid.SampledFrom([]int{1280, 1281, 1300, 1350}).Draw(t, "smallMTU")
			for i := range c.Progs {
				first := 1024 - e2e.Socks5RequestLen(i) - rapid.IntRange(0, 60).Draw(t, "openJitter")
				c.Progs[i].Up.Writes = append([]int{first}, c.Progs[i].Up.Writes...)
			}
		}
		c.Pressure = true
	}
	return c
}

func prop(c udprun.Case) (o pbt.Outcome) {
	res := udprun.Run(c, udprun.RunOpts{StallAfter: 45 * time.Second, MaxWall: 100 * time.Second})
	if res.StartErr != "" {
		o.Failf("start", "valid configuration did not start: %s", res.StartErr)
		return
	}
	nearMTU := 0
	kinds := map[string]bool{}
	for _, d := range res.Datagrams {
		mtu := res.ServerMTU
		who := "server"
		if d.FromClient {
			mtu, who = res.ClientMTU, "client"
		}
		where := fmt.Sprintf("datagram %d from the %s (%d bytes, MTU %d)", d.D.Idx, who, len(d.D.Data), mtu)
		if len(d.D.Data) > mtu {
			desc := ""
			if d.Seg != nil {
				desc = e2e.DescribeSeg(d.Seg)
			}
			o.Failf("mtu", "%s exceeds the sender's configured MTU %s", where, desc)
			return
		}
		if len(d.D.Data) >= mtu-16 {
			nearMTU++
		}
		if d.Seg == nil {
			o.Failf("lengths", "%s: the reference decoder rejects it, length fields do not account for the bytes present: %v", where, d.Err)
			return
		}
		m := d.Seg.Meta
		if refproto.IsSession(m.Proto) && m.PayloadLen > 1024 {
			o.Failf("limits", "%s: session segment with %d > 1024 payload bytes", where, m.PayloadLen)
			return
		}
		if refproto.IsLE(m.Proto) && len(d.Seg.Payload) > 0 && int(m.PayloadLen) != refproto.LEEncodedLen(len(d.Seg.Payload), m.Byte1) {
			o.Failf("limits", "%s: low-entropy payload length %d is not ceil(N/C)*8 for N=%d", where, m.PayloadLen, len(d.Seg.Payload))
			return
		}
		kinds[fmt.Sprintf("proto%d", m.Proto)] = true
		if d.D.Fate.Note == "" && false {
			_ = simnet.Fate{}
		}
	}
	nonDefault := !c.Cfg.ClientPattern.IsDefault() || !c.Cfg.ServerPattern.IsDefault()
	o.NonTrivial = nearMTU > 0 || nonDefault
	o.Label("nearMTU>0=%v", nearMTU > 0)
	o.Label("paddingPressure=%v", c.Pressure)
	o.Label("clientMTU=%d", res.ClientMTU)
	o.Label("retrans>0=%v", res.Retransmissions() > 0)
	for k := range kinds {
		o.Label(k)
	}
	return
}

func TestC14(t *testing.T) {
	pbt.Run(t, "C14", "wire", gen, prop)
}
