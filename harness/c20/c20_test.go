// C20 — configuration handling is total, lossless, and keeps server
// passwords hashed. See DESIGN.md section 3.20.
package c20

import (
	"bytes"
	"crypto/sha256"
	"encoding/hex"
	"fmt"
	"os"
	"path/filepath"
	"sort"
	"strings"
	"testing"
	"unicode/utf8"

	"github.com/enfein/mieru/v3/pkg/appctl"
	"github.com/enfein/mieru/v3/pkg/appctl/appctlcommon"
	pb "github.com/enfein/mieru/v3/pkg/appctl/appctlpb"
	"github.com/enfein/mieru/v3/pkg/common"
	"google.golang.org/protobuf/proto"
	"google.golang.org/protobuf/reflect/protoreflect"
	"pgregory.net/rapid"

	"verif/harness/e2e"
	"verif/harness/pbt"
)

var specialAlphabet = []rune("abcXYZ019-_.~@:/?#[]!$&'()*+,;=% \\\"<>{}|^`中é\u00a0\U0001F600")

func genText(t *rapid.T, label string, maxBytes int) string {
	n := rapid.IntRange(1, 24).Draw(t, label+".n")
	var sb strings.Builder
	for i := 0; i < n; i++ {
		r := rapid.SampledFrom(specialAlphabet).Draw(t, label)
		if sb.Len()+utf8.RuneLen(r) > maxBytes {
			break
		}
		sb.WriteRune(r)
	}
	if sb.Len() == 0 {
		return "x"
	}
	return sb.String()
}

type Binding struct {
	Port  int    `json:"port,omitempty"`
	Range string `json:"range,omitempty"`
	UDP   bool   `json:"udp,omitempty"`
}

func genBindings(t *rapid.T, label string) []Binding {
	n := rapid.IntRange(1, 3).Draw(t, label+".n")
	var bs []Binding
	for i := 0; i < n; i++ {
		b := Binding{UDP: rapid.Bool().Draw(t, label+".udp")}
		if rapid.Bool().Draw(t, label+".isRange") {
			lo := rapid.IntRange(1, 65535).Draw(t, label+".lo")
			hi := rapid.IntRange(lo, min(65535, lo+20)).Draw(t, label+".hi")
			b.Range = fmt.Sprintf("%d-%d", lo, hi)
		} else {
			b.Port = rapid.SampledFrom([]int{1, 80, 443, 2012, 65535}).Draw(t, label+".port")
		}
		bs = append(bs, b)
	}
	return bs
}

func min(a, b int) int {
	if a < b {
		return a
	}
	return b
}

func bindingsProto(bs []Binding) []*pb.PortBinding {
	var out []*pb.PortBinding
	for _, b := range bs {
		p := &pb.PortBinding{Protocol: pb.TransportProtocol_TCP.Enum()}
		if b.UDP {
			p.Protocol = pb.TransportProtocol_UDP.Enum()
		}
		if b.Range != "" {
			p.PortRange = proto.String(b.Range)
		} else {
			p.Port = proto.Int32(int32(b.Port))
		}
		out = append(out, p)
	}
	return out
}

type Server struct {
	IP       string    `json:"ip,omitempty"`
	Domain   string    `json:"domain,omitempty"`
	Bindings []Binding `json:"bindings"`
}

type Profile struct {
	Name      string           `json:"name"`
	User      string           `json:"user"`
	Password  string           `json:"password"`
	Servers   []Server         `json:"servers"`
	MTU       int              `json:"mtu,omitempty"`
	Multiplex int              `json:"multiplex"` // -1 unset
	Handshake int              `json:"handshake"` // -1 unset
	Pattern   *e2e.PatternSpec `json:"pattern,omitempty"`
}

func (p Profile) proto() *pb.ClientProfile {
	cp := &pb.ClientProfile{
		ProfileName: proto.String(p.Name),
		User:        &pb.User{Name: proto.String(p.User), Password: proto.String(p.Password)},
	}
	for _, s := range p.Servers {
		se := &pb.ServerEndpoint{PortBindings: bindingsProto(s.Bindings)}
		if s.IP != "" {
			se.IpAddress = proto.String(s.IP)
		} else {
			se.DomainName = proto.String(s.Domain)
		}
		cp.Servers = append(cp.Servers, se)
	}
	if p.MTU != 0 {
		cp.Mtu = proto.Int32(int32(p.MTU))
	}
	if p.Multiplex >= 0 {
		cp.Multiplexing = &pb.MultiplexingConfig{Level: pb.MultiplexingLevel(p.Multiplex).Enum()}
	}
	if p.Handshake >= 0 {
		cp.HandshakeMode = pb.HandshakeMode(p.Handshake).Enum()
	}
	if p.Pattern != nil {
		cp.TrafficPattern = p.Pattern.Proto()
	}
	return cp
}

func genProfile(t *rapid.T, name string) Profile {
	p := Profile{Name: name, User: genText(t, "user", 64), Password: genText(t, "password", 64), Multiplex: -1, Handshake: -1}
	ns := rapid.IntRange(1, 3).Draw(t, "nServers")
	for i := 0; i < ns; i++ {
		s := Server{Bindings: genBindings(t, "binding")}
		switch rapid.IntRange(0, 2).Draw(t, "hostKind") {
		case 0:
			s.IP = rapid.SampledFrom([]string{"12.34.56.78", "10.0.0.1", "2001:db8::1", "::1", "fe80::1"}).Draw(t, "ip")
		default:
			s.Domain = rapid.SampledFrom([]string{"example.com", "a-b.example.org", "xn--fsq.example", "localhost", "h"}).Draw(t, "domain")
		}
		p.Servers = append(p.Servers, s)
	}
	if rapid.Bool().Draw(t, "hasMTU") {
		p.MTU = rapid.SampledFrom([]int{1280, 1400, 1500}).Draw(t, "mtu")
	}
	if rapid.Bool().Draw(t, "hasMux") {
		p.Multiplex = rapid.IntRange(0, 4).Draw(t, "mux")
	}
	if rapid.Bool().Draw(t, "hasHS") {
		p.Handshake = rapid.IntRange(0, 2).Draw(t, "hs")
	}
	if rapid.Bool().Draw(t, "hasPattern") {
		sp := e2e.GenPattern(t, "tp", 100)
		if !sp.Nil {
			p.Pattern = &sp
		}
	}
	return p
}

type ClientCase struct {
	Profiles   []Profile   `json:"profiles"`
	Active     int         `json:"active"`
	RPCPort    int         `json:"rpcPort"` // -1 unset
	Socks5Port int         `json:"socks5Port"`
	HTTPPort   int         `json:"httpPort"` // -1 unset
	ListenLAN  int         `json:"listenLAN"`
	Auth       [][2]string `json:"auth,omitempty"`
	JSON       bool        `json:"json"`
	// patch
	PatchProfiles []Profile `json:"patchProfiles,omitempty"`
	PatchSocks5   int       `json:"patchSocks5"` // -1 unset
	PatchActive   int       `json:"patchActive"` // -1 unset, index into merged names
	PatchLogging  int       `json:"patchLogging"`
	// every other top-level field, independently set or left alone by the patch
	HTTPListenLAN      int         `json:"httpListenLAN,omitempty"`      // base: 0 unset, 1 false, 2 true
	Adv                int         `json:"adv,omitempty"`                // base: 0 unset, 1 "30s", 2 "2h"
	PatchRPC           int         `json:"patchRPC"`                     // -1 unset
	PatchHTTP          int         `json:"patchHTTP"`                    // -1 unset
	PatchListenLAN     int         `json:"patchListenLAN,omitempty"`     // 0 unset, 1 false, 2 true
	PatchHTTPListenLAN int         `json:"patchHTTPListenLAN,omitempty"` // 0 unset, 1 false, 2 true
	PatchAdv           int         `json:"patchAdv,omitempty"`           // 0 unset, 1 "30s", 2 "2h"
	PatchAuth          [][2]string `json:"patchAuth,omitempty"`
}

func optBool(v int) *bool {
	switch v {
	case 1:
		return proto.Bool(false)
	case 2:
		return proto.Bool(true)
	}
	return nil
}

func optAdv(v int) *pb.ClientAdvancedSettings {
	switch v {
	case 1:
		return &pb.ClientAdvancedSettings{MetricsLoggingInterval: proto.String("30s")}
	case 2:
		return &pb.ClientAdvancedSettings{MetricsLoggingInterval: proto.String("2h")}
	}
	return nil
}

func (c ClientCase) config() *pb.ClientConfig {
	cc := &pb.ClientConfig{Socks5Port: proto.Int32(int32(c.Socks5Port))}
	for _, p := range c.Profiles {
		cc.Profiles = append(cc.Profiles, p.proto())
	}
	cc.ActiveProfile = proto.String(c.Profiles[c.Active%len(c.Profiles)].Name)
	if c.RPCPort >= 0 {
		cc.RpcPort = proto.Int32(int32(c.RPCPort))
	}
	if c.HTTPPort >= 0 {
		cc.HttpProxyPort = proto.Int32(int32(c.HTTPPort))
	}
	switch c.ListenLAN {
	case 1:
		cc.Socks5ListenLAN = proto.Bool(false)
	case 2:
		cc.Socks5ListenLAN = proto.Bool(true)
	}
	for _, a := range c.Auth {
		cc.Socks5Authentication = append(cc.Socks5Authentication, &pb.Auth{User: proto.String(a[0]), Password: proto.String(a[1])})
	}
	cc.HttpProxyListenLAN = optBool(c.HTTPListenLAN)
	cc.AdvancedSettings = optAdv(c.Adv)
	return cc
}

func genClient(t *rapid.T) ClientCase {
	var c ClientCase
	np := rapid.IntRange(1, 3).Draw(t, "nProfiles")
	used := map[string]bool{}
	for i := 0; i < np; i++ {
		name := genText(t, "profileName", 40)
		for used[name] {
			name += "'"
		}
		used[name] = true
		c.Profiles = append(c.Profiles, genProfile(t, name))
	}
	c.Active = rapid.IntRange(0, np-1).Draw(t, "active")
	c.Socks5Port = rapid.SampledFrom([]int{1080, 1, 65535}).Draw(t, "socks5Port")
	c.RPCPort = rapid.SampledFrom([]int{-1, 0, 8964}).Draw(t, "rpcPort")
	c.HTTPPort = rapid.SampledFrom([]int{-1, 8080}).Draw(t, "httpPort")
	c.ListenLAN = rapid.IntRange(0, 2).Draw(t, "listenLAN")
	na := rapid.IntRange(0, 2).Draw(t, "nAuth")
	for i := 0; i < na; i++ {
		c.Auth = append(c.Auth, [2]string{genText(t, "authUser", 40), genText(t, "authPass", 40)})
	}
	c.JSON = rapid.Bool().Draw(t, "json")
	// patch: replace an existing profile and/or add a new one
	npp := rapid.IntRange(0, 2).Draw(t, "nPatchProfiles")
	for i := 0; i < npp; i++ {
		var name string
		if rapid.Bool().Draw(t, "patchExisting") {
			name = c.Profiles[rapid.IntRange(0, np-1).Draw(t, "which")].Name
		} else {
			name = genText(t, "newProfileName", 40) + "+"
		}
		dup := false
		for _, pp := range c.PatchProfiles {
			if pp.Name == name {
				dup = true
			}
		}
		if !dup {
			c.PatchProfiles = append(c.PatchProfiles, genProfile(t, name))
		}
	}
	c.PatchSocks5 = rapid.SampledFrom([]int{-1, -1, 1081}).Draw(t, "patchSocks5")
	c.PatchActive = rapid.SampledFrom([]int{-1, -1, 0, 1}).Draw(t, "patchActive")
	c.PatchLogging = rapid.SampledFrom([]int{-1, -1, 1, 3}).Draw(t, "patchLogging")
	c.HTTPListenLAN = rapid.IntRange(0, 2).Draw(t, "httpListenLAN")
	c.Adv = rapid.IntRange(0, 2).Draw(t, "adv")
	c.PatchRPC = rapid.SampledFrom([]int{-1, -1, 9000}).Draw(t, "patchRPC")
	c.PatchHTTP = rapid.SampledFrom([]int{-1, -1, 8081}).Draw(t, "patchHTTP")
	c.PatchListenLAN = rapid.SampledFrom([]int{0, 0, 1, 2}).Draw(t, "patchListenLAN")
	c.PatchHTTPListenLAN = rapid.SampledFrom([]int{0, 0, 1, 2}).Draw(t, "patchHTTPListenLAN")
	c.PatchAdv = rapid.SampledFrom([]int{0, 0, 1, 2}).Draw(t, "patchAdv")
	for i := rapid.SampledFrom([]int{0, 0, 1, 2}).Draw(t, "nPatchAuth"); i > 0; i-- {
		c.PatchAuth = append(c.PatchAuth, [2]string{genText(t, "pAuthUser", 30), genText(t, "pAuthPass", 30)})
	}
	return c
}

func hashed(pw, name string) string {
	h := sha256.Sum256(append(append([]byte(pw), 0), []byte(name)...))
	return hex.EncodeToString(h[:])
}

func withTempFile(kindJSON bool, envPB, envJSON string) (path string, cleanup func()) {
	dir, _ := os.MkdirTemp("", "c20-")
	os.Unsetenv(envPB)
	os.Unsetenv(envJSON)
	if kindJSON {
		path = filepath.Join(dir, "conf.json")
		os.Setenv(envJSON, path)
	} else {
		path = filepath.Join(dir, "conf.pb")
		os.Setenv(envPB, path)
	}
	return path, func() {
		os.Unsetenv(envPB)
		os.Unsetenv(envJSON)
		os.RemoveAll(dir)
	}
}

// guard converts a panic in a synchronous configuration entry point into a
// violation (legitimate here: these calls run on the caller's goroutine).
func guard(o *pbt.Outcome, what string, f func()) {
	defer func() {
		if r := recover(); r != nil {
			o.Failf("panic/"+what, "%s panicked: %v", what, r)
		}
	}()
	f()
}

func propClient(c ClientCase) (o pbt.Outcome) {
	special := false
	for _, p := range c.Profiles {
		if strings.ContainsAny(p.Name+p.User+p.Password, "@:/?#[]%&=+ ") {
			special = true
		}
	}
	o.NonTrivial = special || len(c.PatchProfiles) > 0
	o.Label("json=%v", c.JSON)
	o.Label("profiles=%d", len(c.Profiles))
	o.Label("patchProfiles=%d", len(c.PatchProfiles))
	guard(&o, "client-config", func() {
		cfg := c.config()
		if err := appctl.ValidateFullClientConfig(cfg); err != nil {
			o.Failf("harness", "generator produced an invalid client config: %v", err)
			return
		}
		_, cleanup := withTempFile(c.JSON, "MIERU_CONFIG_FILE", "MIERU_CONFIG_JSON_FILE")
		defer cleanup()
		// store -> load
		want := proto.Clone(cfg).(*pb.ClientConfig)
		for _, p := range want.Profiles {
			p.User.HashedPassword = proto.String(hashed(p.User.GetPassword(), p.User.GetName()))
		}
		if err := appctl.StoreClientConfig(proto.Clone(cfg).(*pb.ClientConfig)); err != nil {
			o.Failf("store", "StoreClientConfig failed on a valid config: %v", err)
			return
		}
		got, err := appctl.LoadClientConfig()
		if err != nil {
			o.Failf("load", "LoadClientConfig failed after a successful store: %v", err)
			return
		}
		if !proto.Equal(got, want) {
			o.Failf("store-load", "store-then-load is not equivalent:\n got  %v\n want %v", got, want)
			return
		}
		// mieru:// export -> import
		u, err := appctl.ClientConfigToURL(cfg)
		if err != nil {
			o.Failf("url", "ClientConfigToURL: %v", err)
			return
		}
		back, err := appctl.URLToClientConfig(u)
		if err != nil || !proto.Equal(back, cfg) {
			o.Failf("url", "mieru:// export-then-import differs (err %v)", err)
			return
		}
		if back2, err := appctl.ParseURLClientConfig(u); err != nil || !proto.Equal(back2, cfg) {
			o.Failf("url", "ParseURLClientConfig(mieru://) differs (err %v)", err)
			return
		}
		// mierus:// per profile and server
		for _, p := range cfg.Profiles {
			urls, err := appctl.ClientProfileToMultiURLs(p)
			if err != nil {
				o.Failf("mierus", "ClientProfileToMultiURLs failed for a valid profile: %v", err)
				return
			}
			if len(urls) != len(p.Servers) {
				o.Failf("mierus", "%d URLs for %d servers", len(urls), len(p.Servers))
				return
			}
			for i, su := range urls {
				q, err := appctl.URLToClientProfile(su)
				if err != nil {
					o.Failf("mierus", "URLToClientProfile(%q): %v", su, err)
					return
				}
				exp := &pb.ClientProfile{
					ProfileName: p.ProfileName,
					User:        &pb.User{Name: p.User.Name, Password: p.User.Password},
					Servers:     []*pb.ServerEndpoint{proto.Clone(p.Servers[i]).(*pb.ServerEndpoint)},
					Mtu:         p.Mtu, Multiplexing: p.Multiplexing, HandshakeMode: p.HandshakeMode, TrafficPattern: p.TrafficPattern,
				}
				// an empty traffic pattern message and an absent one are equivalent
				if exp.TrafficPattern != nil && proto.Size(exp.TrafficPattern) == 0 {
					exp.TrafficPattern = nil
				}
				if !proto.Equal(q, exp) {
					o.Failf("mierus", "mierus:// export-then-import differs for %q:\n got  %v\n want %v", su, q, exp)
					return
				}
			}
			// a valid profile builds a client mux
			mux, err := appctlcommon.NewClientMuxFromProfile(p, nil, nil, nil, nil)
			if err != nil {
				o.Failf("start", "NewClientMuxFromProfile failed for a valid profile: %v", err)
				return
			}
			mux.Close()
		}
		// patch
		patch := &pb.ClientConfig{}
		for _, pp := range c.PatchProfiles {
			patch.Profiles = append(patch.Profiles, pp.proto())
		}
		merged := map[string]*pb.ClientProfile{}
		for _, p := range want.Profiles {
			merged[p.GetProfileName()] = p
		}
		for _, p := range patch.Profiles {
			q := proto.Clone(p).(*pb.ClientProfile)
			q.User.HashedPassword = proto.String(hashed(q.User.GetPassword(), q.User.GetName()))
			merged[q.GetProfileName()] = q
		}
		var names []string
		for n := range merged {
			names = append(names, n)
		}
		sort.Strings(names)
		exp := proto.Clone(want).(*pb.ClientConfig)
		exp.Profiles = nil
		for _, n := range names {
			exp.Profiles = append(exp.Profiles, merged[n])
		}
		if c.PatchSocks5 >= 0 {
			patch.Socks5Port = proto.Int32(int32(c.PatchSocks5))
			exp.Socks5Port = proto.Int32(int32(c.PatchSocks5))
		}
		if c.PatchActive >= 0 {
			n := names[c.PatchActive%len(names)]
			patch.ActiveProfile = proto.String(n)
			exp.ActiveProfile = proto.String(n)
		}
		if c.PatchLogging >= 0 {
			patch.LoggingLevel = pb.LoggingLevel(c.PatchLogging).Enum()
			exp.LoggingLevel = pb.LoggingLevel(c.PatchLogging).Enum()
		}
		if exp.LoggingLevel == nil {
			exp.LoggingLevel = pb.LoggingLevel(0).Enum() // default normalised
		}
		if c.PatchRPC >= 0 {
			patch.RpcPort, exp.RpcPort = proto.Int32(int32(c.PatchRPC)), proto.Int32(int32(c.PatchRPC))
		}
		if c.PatchHTTP >= 0 {
			patch.HttpProxyPort, exp.HttpProxyPort = proto.Int32(int32(c.PatchHTTP)), proto.Int32(int32(c.PatchHTTP))
		}
		if b := optBool(c.PatchListenLAN); b != nil {
			patch.Socks5ListenLAN, exp.Socks5ListenLAN = b, proto.Bool(*b)
		}
		if b := optBool(c.PatchHTTPListenLAN); b != nil {
			patch.HttpProxyListenLAN, exp.HttpProxyListenLAN = b, proto.Bool(*b)
		}
		if a := optAdv(c.PatchAdv); a != nil {
			patch.AdvancedSettings, exp.AdvancedSettings = a, optAdv(c.PatchAdv)
		}
		if len(c.PatchAuth) > 0 {
			exp.Socks5Authentication = nil
			for _, a := range c.PatchAuth {
				patch.Socks5Authentication = append(patch.Socks5Authentication, &pb.Auth{User: proto.String(a[0]), Password: proto.String(a[1])})
				exp.Socks5Authentication = append(exp.Socks5Authentication, &pb.Auth{User: proto.String(a[0]), Password: proto.String(a[1])})
			}
		}
		expValid := appctl.ValidateFullClientConfig(exp) == nil
		o.Label("patchedConfigValid=%v", expValid)
		pj, err := common.MarshalJSON(patch)
		if err != nil {
			o.Failf("harness", "marshal patch: %v", err)
			return
		}
		pdir, _ := os.MkdirTemp("", "c20p-")
		defer os.RemoveAll(pdir)
		ppath := filepath.Join(pdir, "patch.json")
		os.WriteFile(ppath, pj, 0o600)
		if err := appctl.ApplyJSONClientConfig(ppath); err != nil {
			if !expValid {
				// a patch whose result is not a valid configuration is refused
				// and the stored configuration stays as it was
				if still, lerr := appctl.LoadClientConfig(); lerr != nil || !proto.Equal(still, want) {
					o.Failf("patch", "a refused patch changed the stored configuration (load err %v)", lerr)
				}
				return
			}
			o.Failf("patch", "ApplyJSONClientConfig failed on a valid patch: %v", err)
			return
		}
		after, err := appctl.LoadClientConfig()
		if err != nil {
			o.Failf("patch", "load after patch: %v", err)
			return
		}
		if !proto.Equal(after, exp) {
			o.Failf("patch", "patch changed something it does not set (or missed something):\n got  %v\n want %v", after, exp)
		}
	})
	return
}

func TestC20Client(t *testing.T) {
	pbt.Run(t, "C20", "client", genClient, propClient)
}

// ---- server ------------------------------------------------------------------

type SUser struct {
	Name     string   `json:"name"`
	Password string   `json:"password"`
	Quotas   [][2]int `json:"quotas,omitempty"`
	Loop     bool     `json:"loop,omitempty"`
	// Form: 0 password only, 1 hashedPassword only (as "describe config" prints
	// it), 2 both - a new password next to the hash of an older one
	Form int `json:"form,omitempty"`
}

type ServerCase struct {
	Bindings []Binding         `json:"bindings"`
	Users    []SUser           `json:"users"`
	MTU      int               `json:"mtu,omitempty"`
	Pattern  *e2e.PatternSpec  `json:"pattern,omitempty"`
	DNS      map[string]string `json:"dns,omitempty"`
	Egress   bool              `json:"egress,omitempty"`
	JSON     bool              `json:"json"`
	// patch
	PatchUsers    []SUser          `json:"patchUsers,omitempty"`
	PatchBindings []Binding        `json:"patchBindings,omitempty"`
	PatchMTU      int              `json:"patchMTU,omitempty"`
	PatchPattern  *e2e.PatternSpec `json:"patchPattern,omitempty"`
	Marker        string           `json:"marker"`
}

func (u SUser) proto(marker string) *pb.User {
	p := &pb.User{Name: proto.String(u.Name), Password: proto.String(marker + u.Password)}
	switch u.Form {
	case 1:
		p.Password = nil
		p.HashedPassword = proto.String(hashed(marker+u.Password, u.Name))
	case 2:
		p.HashedPassword = proto.String(hashed("an older password", u.Name))
	}
	for _, q := range u.Quotas {
		p.Quotas = append(p.Quotas, &pb.Quota{Days: proto.Int32(int32(q[0])), Megabytes: proto.Int32(int32(q[1]))})
	}
	if u.Loop {
		p.AllowLoopbackIP = proto.Bool(true)
	}
	return p
}

func genSUser(t *rapid.T, name string) SUser {
	u := SUser{Name: name, Password: genText(t, "spw", 40), Loop: rapid.Bool().Draw(t, "loop"), Form: rapid.SampledFrom([]int{0, 0, 1, 2}).Draw(t, "form")}
	nq := rapid.IntRange(0, 2).Draw(t, "nq")
	for i := 0; i < nq; i++ {
		u.Quotas = append(u.Quotas, [2]int{rapid.IntRange(1, 365).Draw(t, "days"), rapid.IntRange(1, 1<<20).Draw(t, "mb")})
	}
	return u
}

func genServer(t *rapid.T) ServerCase {
	var c ServerCase
	c.Marker = "M" + fmt.Sprintf("%08x", rapid.Uint32().Draw(t, "marker")) + "k"
	c.Bindings = genBindings(t, "sb")
	nu := rapid.IntRange(1, 4).Draw(t, "nUsers")
	used := map[string]bool{}
	for i := 0; i < nu; i++ {
		n := genText(t, "sname", 60)
		for used[n] {
			n += "_"
		}
		used[n] = true
		c.Users = append(c.Users, genSUser(t, n))
	}
	if rapid.Bool().Draw(t, "hasMTU") {
		c.MTU = rapid.SampledFrom([]int{1280, 1400, 1500}).Draw(t, "mtu")
	}
	if rapid.Bool().Draw(t, "hasPattern") {
		sp := e2e.GenPattern(t, "stp", 100)
		if !sp.Nil {
			c.Pattern = &sp
		}
	}
	if rapid.Bool().Draw(t, "hasDNS") {
		c.DNS = map[string]string{"example.com": "1.2.3.4", "A.Example.org": "2001:db8::5"}
	}
	c.Egress = rapid.Bool().Draw(t, "egress")
	c.JSON = rapid.Bool().Draw(t, "json")
	np := rapid.IntRange(0, 2).Draw(t, "nPatchUsers")
	for i := 0; i < np; i++ {
		var n string
		if rapid.Bool().Draw(t, "patchExistingUser") {
			n = c.Users[rapid.IntRange(0, nu-1).Draw(t, "whichUser")].Name
		} else {
			n = genText(t, "newUser", 50) + "+"
		}
		dup := false
		for _, pu := range c.PatchUsers {
			if pu.Name == n {
				dup = true
			}
		}
		if !dup {
			c.PatchUsers = append(c.PatchUsers, genSUser(t, n))
		}
	}
	if rapid.IntRange(0, 2).Draw(t, "patchBindings?") == 0 {
		c.PatchBindings = genBindings(t, "pb")
	}
	c.PatchMTU = rapid.SampledFrom([]int{0, 0, 1300}).Draw(t, "patchMTU")
	if rapid.IntRange(0, 3).Draw(t, "patchPattern?") == 0 {
		sp := e2e.GenPattern(t, "ptp", 100)
		if !sp.Nil {
			c.PatchPattern = &sp
		}
	}
	return c
}

func (c ServerCase) config() *pb.ServerConfig {
	sc := &pb.ServerConfig{PortBindings: bindingsProto(c.Bindings)}
	for _, u := range c.Users {
		sc.Users = append(sc.Users, u.proto(c.Marker))
	}
	if c.MTU != 0 {
		sc.Mtu = proto.Int32(int32(c.MTU))
	}
	if c.Pattern != nil {
		sc.TrafficPattern = c.Pattern.Proto()
	}
	if c.DNS != nil {
		sc.Dns = &pb.DNS{Hosts: c.DNS}
	}
	if c.Egress {
		sc.Egress = &pb.Egress{
			Proxies: []*pb.EgressProxy{{Name: proto.String("p"), Protocol: pb.ProxyProtocol_SOCKS5_PROXY_PROTOCOL.Enum(), Host: proto.String("192.0.2.1"), Port: proto.Int32(1080),
				Socks5Authentication: &pb.Auth{User: proto.String("eu"), Password: proto.String("ep")}}},
			Rules: []*pb.EgressRule{{IpRanges: []string{"*"}, DomainNames: []string{"*"}, Action: pb.EgressAction_PROXY.Enum(), ProxyNames: []string{"p"}}},
		}
	}
	return sc
}

func hashUsers(us []*pb.User) {
	for _, u := range us {
		if u.GetPassword() != "" {
			u.HashedPassword = proto.String(hashed(u.GetPassword(), u.GetName()))
			u.Password = proto.String("")
		}
	}
}

func checkNoPlaintext(o *pbt.Outcome, path, marker string, isJSON bool) bool {
	raw, err := os.ReadFile(path)
	if err != nil {
		o.Failf("store", "cannot read the stored server config: %v", err)
		return false
	}
	if bytes.Contains(raw, []byte(marker)) {
		o.Failf("plaintext", "the stored server configuration contains a plaintext password (marker %q found in %s)", marker, filepath.Base(path))
		return false
	}
	sc := &pb.ServerConfig{}
	if isJSON {
		err = common.UnmarshalJSON(raw, sc)
	} else {
		err = proto.Unmarshal(raw, sc)
	}
	if err != nil {
		o.Failf("store", "the stored server config does not parse: %v", err)
		return false
	}
	for _, u := range sc.Users {
		if u.GetPassword() != "" {
			o.Failf("plaintext", "stored user %q has a non-empty password field", u.GetName())
			return false
		}
		if u.GetHashedPassword() == "" {
			o.Failf("plaintext", "stored user %q has no hashed password", u.GetName())
			return false
		}
	}
	return true
}

func propServer(c ServerCase) (o pbt.Outcome) {
	o.NonTrivial = len(c.PatchUsers) > 0 || c.PatchBindings != nil || c.PatchPattern != nil
	o.Label("json=%v", c.JSON)
	o.Label("users=%d", len(c.Users))
	o.Label("patchUsers=%d", len(c.PatchUsers))
	guard(&o, "server-config", func() {
		cfg := c.config()
		if err := appctl.ValidateFullServerConfig(cfg); err != nil {
			o.Failf("harness", "generator produced an invalid server config: %v", err)
			return
		}
		path, cleanup := withTempFile(c.JSON, "MITA_CONFIG_FILE", "MITA_CONFIG_JSON_FILE")
		defer cleanup()
		want := proto.Clone(cfg).(*pb.ServerConfig)
		hashUsers(want.Users)
		if err := appctl.StoreServerConfig(proto.Clone(cfg).(*pb.ServerConfig)); err != nil {
			o.Failf("store", "StoreServerConfig failed on a valid config: %v", err)
			return
		}
		if !checkNoPlaintext(&o, path, c.Marker, c.JSON) {
			return
		}
		got, err := appctl.LoadServerConfig()
		if err != nil {
			o.Failf("load", "LoadServerConfig: %v", err)
			return
		}
		if !proto.Equal(got, want) {
			o.Failf("store-load", "store-then-load is not equivalent:\n got  %v\n want %v", got, want)
			return
		}
		// patch
		patch := &pb.ServerConfig{}
		merged := map[string]*pb.User{}
		for _, u := range want.Users {
			merged[u.GetName()] = u
		}
		for _, pu := range c.PatchUsers {
			p := pu.proto(c.Marker)
			patch.Users = append(patch.Users, p)
			q := proto.Clone(p).(*pb.User)
			hashUsers([]*pb.User{q})
			merged[q.GetName()] = q
		}
		var names []string
		for n := range merged {
			names = append(names, n)
		}
		sort.Strings(names)
		exp := proto.Clone(want).(*pb.ServerConfig)
		exp.Users = nil
		for _, n := range names {
			exp.Users = append(exp.Users, merged[n])
		}
		if c.PatchBindings != nil {
			patch.PortBindings = bindingsProto(c.PatchBindings)
			exp.PortBindings = bindingsProto(c.PatchBindings)
		}
		if c.PatchMTU != 0 {
			patch.Mtu = proto.Int32(int32(c.PatchMTU))
			exp.Mtu = proto.Int32(int32(c.PatchMTU))
		}
		if c.PatchPattern != nil {
			patch.TrafficPattern = c.PatchPattern.Proto()
			exp.TrafficPattern = c.PatchPattern.Proto()
		}
		// defaults normalised: unset scalars read back as their default
		if exp.Mtu == nil {
			exp.Mtu = proto.Int32(0)
		}
		if exp.LoggingLevel == nil {
			exp.LoggingLevel = pb.LoggingLevel(0).Enum()
		}
		pj, err := common.MarshalJSON(patch)
		if err != nil {
			o.Failf("harness", "marshal patch: %v", err)
			return
		}
		pdir, _ := os.MkdirTemp("", "c20p-")
		defer os.RemoveAll(pdir)
		ppath := filepath.Join(pdir, "patch.json")
		os.WriteFile(ppath, pj, 0o600)
		if err := appctl.ApplyJSONServerConfig(ppath); err != nil {
			o.Failf("patch", "ApplyJSONServerConfig failed on a valid patch: %v", err)
			return
		}
		if !checkNoPlaintext(&o, path, c.Marker, c.JSON) {
			return
		}
		after, err := appctl.LoadServerConfig()
		if err != nil {
			o.Failf("patch", "load after patch: %v", err)
			return
		}
		if !proto.Equal(after, exp) {
			o.Failf("patch", "patch changed something it does not set (or missed something):\n got  %v\n want %v", after, exp)
		}
	})
	return
}

func TestC20Server(t *testing.T) {
	pbt.Run(t, "C20", "server", genServer, propServer)
}

// ---- malformed text -------------------------------------------------------------

type TextCase struct {
	Kind   int    `json:"kind"` // 0 random, 1 mutated valid mieru://, 2 mutated valid mierus://, 3 scheme-ish short strings, 4 JSON-ish, 5 a structurally well-formed configuration whose field values are hostile
	Text   string `json:"text"`
	Cut    int    `json:"cut"`
	Insert string `json:"insert"`
	At     int    `json:"at"`
}

var validMieru, validMierus string

func init() {
	cfg := &pb.ClientConfig{ActiveProfile: proto.String("d"), Socks5Port: proto.Int32(1080), Profiles: []*pb.ClientProfile{{
		ProfileName: proto.String("d"), User: &pb.User{Name: proto.String("u@x"), Password: proto.String("p:/?#")},
		Servers: []*pb.ServerEndpoint{{IpAddress: proto.String("2001:db8::1"), PortBindings: []*pb.PortBinding{{PortRange: proto.String("2012-2022"), Protocol: pb.TransportProtocol_TCP.Enum()}}}},
		Mtu:     proto.Int32(1400),
	}}}
	validMieru, _ = appctl.ClientConfigToURL(cfg)
	us, _ := appctl.ClientProfileToMultiURLs(cfg.Profiles[0])
	validMierus = us[0]
}

func genTextCase(t *rapid.T) TextCase {
	c := TextCase{Kind: rapid.SampledFrom([]int{0, 1, 2, 3, 4, 5, 5, 5, 6, 6}).Draw(t, "kind")}
	switch c.Kind {
	case 5:
		var m proto.Message = &pb.ServerConfig{}
		if rapid.Bool().Draw(t, "clientConfig") {
			m = &pb.ClientConfig{}
		}
		genFields(t, m.ProtoReflect(), 0)
		b, err := common.MarshalJSON(m)
		if err != nil {
			b = []byte("{}")
		}
		c.Text = string(b)
		c.Cut, c.Insert, c.At = -1, "", 0
		return c
	case 6:
		// well-formed JSON that asks for something the configuration does not
		// have: a misspelled key (at the top or inside a profile / user / rule) or
		// a misspelled enum name. It is malformed configuration text: it must be
		// refused, not stored without the part nobody understood.
		c.Text = rapid.SampledFrom([]string{
			`{"socks5ListenLAN":true,"socks5authentication":[{"user":"u","password":"p"}]}`,
			`{"activeProfile":"x","rpcport":1}`,
			`{"profiles":[{"profileName":"x","user":{"name":"u","password":"p","allowPrivateIp":true},"servers":[{"ipAddress":"1.2.3.4","portBindings":[{"port":1,"protocol":"TCP"}]}]}]}`,
			`{"profiles":[{"profileName":"x","user":{"name":"u","password":"p"},"servers":[{"ipAddress":"1.2.3.4","portBindings":[{"port":1,"protocol":"tcp"}]}]}]}`,
			`{"profiles":[{"profileName":"x","user":{"name":"u","password":"p"},"servers":[{"ipAddress":"1.2.3.4","portBindings":[{"port":1,"protocol":"TCP"}]}],"handshakeMode":"NO_WAIT"}]}`,
			`{"portBindings":[{"port":1,"protocol":"TCP"}],"users":[{"name":"u","password":"p","quota":[{"days":1,"megabytes":1}]}]}`,
			`{"portBindings":[{"port":1,"protocol":"TCP"}],"users":[{"name":"u","password":"p"}],"egress":{"rules":[{"ipRange":["10.0.0.0/8"],"action":"REJECT"}]}}`,
			`{"portBindings":[{"port":1,"protocol":"TCP"}],"users":[{"name":"u","password":"p"}],"dns":{"dualStack":"PREFER_IPV4"}}`,
			`{"portBindings":[{"port":1,"protocol":"TCP"}],"users":[{"name":"u","password":"p"}],"advancedSettings":{"userHintMandatory":true}}`,
			`{"loggingLevel":"VERBOSE"}`,
			`{"trafficPattern":{"lowEntropy":{"mode":"LOW_ENTROPY_MODE_64"}}}`,
		}).Draw(t, "unknown")
		c.Cut, c.Insert, c.At = -1, "", 0
		return c
	case 0:
		c.Text = rapid.String().Draw(t, "text")
	case 1:
		c.Text = validMieru
	case 2:
		c.Text = validMierus
	case 3:
		c.Text = rapid.SampledFrom([]string{"mieru", "mieru:", "mieru:/", "mieru://", "mieru:#", "mieru:?", "MIERU:", "mierus:", "mierus:/", "mierus://", "mierus://@", "mierus://:@", "mierus://u:p@", "mierus://u:p@[::1", "mierus://u:p@h?profile=x&port=1&protocol=", "mierus://u:p@h?profile=x&port=-&protocol=TCP", "mierus://u:p@h?profile=x&port=1-&protocol=TCP", "mierus://u:p@h?profile=x&mtu=x", "mierus://u:p@h?profile=x&traffic-pattern=%%%", "mieru://%", "mieru://AAAA", "mieru:////", "://", ":", ""}).Draw(t, "short")
	default:
		c.Text = rapid.SampledFrom([]string{"{", "{}", "[]", "null", `{"profiles":[{}]}`, `{"profiles":[null]}`, `{"profiles":[{"user":null,"servers":[null]}]}`, `{"users":[null]}`, `{"portBindings":[{"port":1e99}]}`, `{"trafficPattern":{"nonce":{"customHexStrings":["zz"]}}}`, `{"egress":{"rules":[{"ipRanges":[""]}]}}`, `{"dns":{"hosts":{"":""}}}`, `{"unknown":1}`}).Draw(t, "json")
	}
	c.Cut = rapid.IntRange(-1, 300).Draw(t, "cut")
	c.Insert = rapid.SampledFrom([]string{"", "", "%", "%zz", "\x00", "=", "&port=0", "é", "//", "@", "[", "]", " "}).Draw(t, "insert")
	c.At = rapid.IntRange(0, 300).Draw(t, "at")
	return c
}

var hostileStrings = []string{"", "", ".", "a.", ".a", "*", "a", "example.com", "localhost", "1.2.3.4", "1.2.3.4/33", "10.0.0.0/8", "::1", "0", "-", "1-", "-1", "65536", "2012-2022", "9-1", "30s", "0s", "x", "\x00", "é", " ", "zz", "00ff", strings.Repeat("a", 300)}

// genFields fills a configuration message field by field: every field is
// independently left unset or set to a value from a table of boundary and
// nonsense values of its kind (repeated fields get 0..3 elements, messages
// are filled recursively).
func genFields(t *rapid.T, m protoreflect.Message, depth int) {
	fds := m.Descriptor().Fields()
	for i := 0; i < fds.Len(); i++ {
		fd := fds.Get(i)
		if rapid.IntRange(0, 2).Draw(t, "set") == 0 {
			continue
		}
		value := func() (protoreflect.Value, bool) {
			switch fd.Kind() {
			case protoreflect.StringKind:
				return protoreflect.ValueOfString(rapid.SampledFrom(hostileStrings).Draw(t, "str")), true
			case protoreflect.Int32Kind, protoreflect.Sint32Kind, protoreflect.Sfixed32Kind:
				return protoreflect.ValueOfInt32(rapid.SampledFrom([]int32{0, -1, 1, 1024, 1279, 1280, 1500, 1501, 65535, 65536, 1<<31 - 1, -1 << 31}).Draw(t, "i32")), true
			case protoreflect.Int64Kind:
				return protoreflect.ValueOfInt64(rapid.SampledFrom([]int64{0, -1, 1, 1 << 40}).Draw(t, "i64")), true
			case protoreflect.Uint32Kind:
				return protoreflect.ValueOfUint32(rapid.SampledFrom([]uint32{0, 1, 1 << 31}).Draw(t, "u32")), true
			case protoreflect.BoolKind:
				return protoreflect.ValueOfBool(rapid.Bool().Draw(t, "b")), true
			case protoreflect.EnumKind:
				n := fd.Enum().Values().Len()
				return protoreflect.ValueOfEnum(protoreflect.EnumNumber(rapid.IntRange(0, n).Draw(t, "enum"))), true
			case protoreflect.BytesKind:
				return protoreflect.ValueOfBytes([]byte(rapid.SampledFrom(hostileStrings).Draw(t, "bytes"))), true
			case protoreflect.MessageKind:
				if depth >= 5 {
					return protoreflect.Value{}, false
				}
				sub := dynamicNew(m, fd)
				genFields(t, sub, depth+1)
				return protoreflect.ValueOfMessage(sub), true
			}
			return protoreflect.Value{}, false
		}
		switch {
		case fd.IsMap():
			mp := m.Mutable(fd).Map()
			for k := rapid.IntRange(0, 2).Draw(t, "nMap"); k > 0; k-- {
				key := protoreflect.ValueOfString(rapid.SampledFrom(hostileStrings).Draw(t, "mapKey")).MapKey()
				if fd.MapValue().Kind() == protoreflect.StringKind {
					mp.Set(key, protoreflect.ValueOfString(rapid.SampledFrom(hostileStrings).Draw(t, "mapVal")))
				}
			}
		case fd.IsList():
			l := m.Mutable(fd).List()
			for k := rapid.IntRange(0, 3).Draw(t, "nList"); k > 0; k-- {
				if fd.Kind() == protoreflect.MessageKind {
					if depth >= 5 {
						break
					}
					sub := l.NewElement().Message()
					genFields(t, sub, depth+1)
					l.Append(protoreflect.ValueOfMessage(sub))
				} else if v, ok := value(); ok {
					l.Append(v)
				}
			}
		default:
			if v, ok := value(); ok {
				m.Set(fd, v)
			}
		}
	}
}

func dynamicNew(parent protoreflect.Message, fd protoreflect.FieldDescriptor) protoreflect.Message {
	return parent.NewField(fd).Message()
}

func (c TextCase) text() string {
	s := c.Text
	if c.Insert != "" {
		at := c.At
		if at > len(s) {
			at = len(s)
		}
		s = s[:at] + c.Insert + s[at:]
	}
	if c.Cut >= 0 && c.Cut < len(s) {
		s = s[:c.Cut]
	}
	return s
}

func propText(c TextCase) (o pbt.Outcome) {
	s := c.text()
	o.NonTrivial = c.Kind != 0
	o.Label("kind=%d", c.Kind)
	try := func(name string, f func() error) {
		defer func() {
			if r := recover(); r != nil {
				short := s
				if len(short) > 80 {
					short = short[:80] + "..."
				}
				sig := "panic/" + name
				if name == "URLToClientConfig" && len(s) < 8 {
					sig = "panic/URLToClientConfig/short-mieru-scheme"
				}
				o.Failf(sig, "%s(%q) panicked: %v", name, short, r)
			}
		}()
		f()
	}
	try("URLToClientConfig", func() error { _, err := appctl.URLToClientConfig(s); return err })
	try("URLToClientProfile", func() error {
		p, err := appctl.URLToClientProfile(s)
		if err == nil && p != nil {
			// whatever was accepted must be exportable again
			appctl.ClientProfileToMultiURLs(p)
		}
		return err
	})
	try("ParseURLClientConfig", func() error { _, err := appctl.ParseURLClientConfig(s); return err })
	if c.Kind == 6 {
		cc, sc := &pb.ClientConfig{}, &pb.ServerConfig{}
		errC, errS := common.UnmarshalJSON([]byte(s), cc), common.UnmarshalJSON([]byte(s), sc)
		if errC == nil || errS == nil {
			which := "client"
			if errS == nil {
				which = "server"
			}
			o.Failf("unknown-accepted", "configuration text with a key or enum name that does not exist was accepted as a %s configuration (the part nobody understood is silently dropped): %s", which, s)
			return
		}
	}
	try("UnmarshalJSON(ClientConfig)", func() error {
		cc := &pb.ClientConfig{}
		if err := common.UnmarshalJSON([]byte(s), cc); err != nil {
			return err
		}
		appctl.ValidateClientConfigPatch(cc)
		appctl.ValidateFullClientConfig(cc)
		return nil
	})
	try("UnmarshalJSON(ServerConfig)", func() error {
		sc := &pb.ServerConfig{}
		if err := common.UnmarshalJSON([]byte(s), sc); err != nil {
			return err
		}
		appctl.ValidateServerConfigPatch(sc)
		appctl.ValidateFullServerConfig(sc)
		return nil
	})
	return
}

func TestC20Text(t *testing.T) {
	pbt.Run(t, "C20", "text", genTextCase, propText)
}

// FuzzC20URL: coverage-guided search for a panic in the share-link parsers.
func FuzzC20URL(f *testing.F) {
	f.Add(validMieru)
	f.Add(validMierus)
	f.Add("mierus://u:p@h?profile=x&port=1-2&protocol=TCP")
	f.Add("mieru://")
	f.Fuzz(func(t *testing.T, s string) {
		appctl.URLToClientConfig(s)
		if p, err := appctl.URLToClientProfile(s); err == nil {
			appctl.ClientProfileToMultiURLs(p)
		}
		appctl.ParseURLClientConfig(s)
	})
}
