package c20

import (
	"bytes"
	"os"
	"strings"
	"sync"
	"testing"

	"github.com/enfein/mieru/v3/pkg/appctl"
	pb "github.com/enfein/mieru/v3/pkg/appctl/appctlpb"
	"github.com/enfein/mieru/v3/pkg/cli"
	"github.com/enfein/mieru/v3/pkg/common"
	"github.com/enfein/mieru/v3/pkg/log"
	"google.golang.org/protobuf/proto"

	"verif/harness/pbt"
)

// (f) what the command line prints is what the library returns: the text of
// `mieru describe config` must parse back to the stored configuration, and
// every line of `mieru export config simple` must import to the profile it was
// made from - also when names and passwords contain '%' and the characters that
// share links percent-escape. The handlers are run through the real command
// table (cli.RegisterClientCommands / ParseAndExecute) with the CLI formatter
// and the log output captured.

var (
	cliOnce sync.Once
	cliMu   sync.Mutex
)

func runCLI(args ...string) (string, error) {
	cliOnce.Do(cli.RegisterClientCommands)
	var buf bytes.Buffer
	log.SetFormatter(&log.CliFormatter{})
	log.SetOutput(&buf)
	log.SetLevel("INFO")
	defer log.SetOutput(os.Stderr)
	old := os.Args
	os.Args = append([]string{"mieru"}, args...)
	defer func() { os.Args = old }()
	err := cli.ParseAndExecute()
	return buf.String(), err
}

func propCLI(c ClientCase) (o pbt.Outcome) {
	cliMu.Lock()
	defer cliMu.Unlock()
	special := false
	for _, p := range c.Profiles {
		if strings.ContainsAny(p.Name+p.User+p.Password, "%@:/?#") {
			special = true
		}
	}
	o.NonTrivial = special
	o.Label("percent=%v", strings.Contains(c.config().String(), "%"))
	guard(&o, "cli", func() {
		cfg := c.config()
		if err := appctl.ValidateFullClientConfig(cfg); err != nil {
			o.Failf("harness", "generator produced an invalid client config: %v", err)
			return
		}
		_, cleanup := withTempFile(c.JSON, "MIERU_CONFIG_FILE", "MIERU_CONFIG_JSON_FILE")
		defer cleanup()
		if err := appctl.StoreClientConfig(proto.Clone(cfg).(*pb.ClientConfig)); err != nil {
			o.Failf("store", "StoreClientConfig failed on a valid config: %v", err)
			return
		}
		stored, err := appctl.LoadClientConfig()
		if err != nil {
			o.Failf("load", "LoadClientConfig: %v", err)
			return
		}
		// describe config -> parse -> the stored configuration
		out, err := runCLI("describe", "config")
		if err != nil {
			o.Failf("cli/describe", "mieru describe config failed: %v", err)
			return
		}
		back := &pb.ClientConfig{}
		if err := common.UnmarshalJSON([]byte(out), back); err != nil {
			o.Failf("cli/describe", "the text printed by `mieru describe config` is not the configuration: %v\n%s", err, out)
			return
		}
		if !proto.Equal(back, stored) {
			o.Failf("cli/describe", "the text printed by `mieru describe config` parses to a different configuration:\n printed %v\n stored  %v", back, stored)
			return
		}
		// export config simple -> every line imports to a profile of the configuration
		out, err = runCLI("export", "config", "simple")
		if err != nil {
			o.Failf("cli/export", "mieru export config simple failed: %v", err)
			return
		}
		lines := 0
		for _, line := range strings.Split(strings.TrimSpace(out), "\n") {
			line = strings.TrimSpace(line)
			if line == "" {
				continue
			}
			lines++
			p, err := appctl.URLToClientProfile(line)
			if err != nil {
				o.Failf("cli/export", "a link printed by `mieru export config simple` cannot be imported: %v\n%s", err, line)
				return
			}
			found := false
			for _, sp := range stored.Profiles {
				if sp.GetProfileName() == p.GetProfileName() && sp.GetUser().GetName() == p.GetUser().GetName() && sp.GetUser().GetPassword() == p.GetUser().GetPassword() {
					found = true
				}
			}
			if !found {
				o.Failf("cli/export", "a link printed by `mieru export config simple` imports to profile %q of user %q with password %q, which the stored configuration does not have\n%s", p.GetProfileName(), p.GetUser().GetName(), p.GetUser().GetPassword(), line)
				return
			}
		}
		if lines == 0 && len(stored.Profiles) > 0 {
			o.Failf("cli/export", "`mieru export config simple` printed nothing for %d profiles", len(stored.Profiles))
		}
	})
	return
}

func TestC20CLI(t *testing.T) {
	pbt.Run(t, "C20", "cli", genClient, propCLI)
}
