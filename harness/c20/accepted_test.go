package c20

import (
	"context"
	"strings"
	"testing"
	"time"
	"unicode/utf8"

	"pgregory.net/rapid"

	"verif/harness/e2e"
	"verif/harness/pbt"
	"verif/harness/simnet"
)

// (e) accepted means usable: a user name / password that the client and the
// server configuration both accept must give a working proxy connection that
// is attributed to that user - in particular at the documented limits (names
// of at most 64 bytes), where "length" can be counted in bytes or characters.
// A configuration that either side refuses is the other half of the contract
// (malformed input => error) and is only counted.

type AcceptedCase struct {
	NameRune  string `json:"nameRune"`  // the character the name is made of
	NameRunes int    `json:"nameRunes"` // how many of them
	Prefix    string `json:"prefix,omitempty"`
	PwRune    string `json:"pwRune"`
	PwRunes   int    `json:"pwRunes"`
	UDP       bool   `json:"udp,omitempty"`
}

func (c AcceptedCase) name() string     { return c.Prefix + strings.Repeat(c.NameRune, c.NameRunes) }
func (c AcceptedCase) password() string { return strings.Repeat(c.PwRune, c.PwRunes) }

func genAccepted(t *rapid.T) AcceptedCase {
	runes := []string{"a", "é", "ж", "山", "名", "\U0001F600", " ", "%"}
	c := AcceptedCase{
		NameRune: rapid.SampledFrom(runes).Draw(t, "nameRune"),
		Prefix:   rapid.SampledFrom([]string{"", "", "u", "user-"}).Draw(t, "prefix"),
		PwRune:   rapid.SampledFrom(runes).Draw(t, "pwRune"),
		PwRunes:  rapid.SampledFrom([]int{1, 8, 21, 22, 32, 64, 65}).Draw(t, "pwRunes"),
		UDP:      rapid.Bool().Draw(t, "udp"),
	}
	// aim the byte length of the name at the limit of 64
	w := utf8.RuneLen([]rune(c.NameRune)[0])
	target := rapid.SampledFrom([]int{1, 16, 32, 48, 60, 62, 63, 64, 65, 66, 67, 68, 96, 128, 192, 256}).Draw(t, "nameBytes")
	c.NameRunes = (target - len(c.Prefix)) / w
	if c.NameRunes < 1 {
		c.NameRunes = 1
	}
	return c
}

func propAccepted(c AcceptedCase) (o pbt.Outcome) {
	name, pw := c.name(), c.password()
	o.Label("nameBytes=%d..", len(name)/16*16)
	o.Label("multibyte=%v", len(name) != utf8.RuneCountInString(name))
	cfg := e2e.Config{UDP: c.UDP, Users: []e2e.UserSpec{{Name: name, Password: pw}}}
	env, err := e2e.Start(cfg, simnet.NewStreamNet(simnet.StreamOpts{}), simnet.NewPacketNet())
	if err != nil {
		if strings.HasPrefix(err.Error(), "server.Start") || strings.HasPrefix(err.Error(), "client.Start") {
			// validation (Store) accepted the configuration, starting with it failed
			o.Failf("accepted/unusable", "a configuration with the user name %q (%d bytes, %d characters) passed validation (Store) and then cannot be started: %v", name, len(name), utf8.RuneCountInString(name), err)
			return
		}
		// one of the two configurations was refused by validation
		o.Label("refused")
		o.Obs = err.Error()
		return
	}
	defer env.StopBounded(3 * time.Second)
	o.Label("accepted")
	o.NonTrivial = len(name) >= 60 && len(name) != utf8.RuneCountInString(name)
	ctx, cancel := context.WithTimeout(context.Background(), 12*time.Second)
	defer cancel()
	conn, err := env.Dial(ctx, 0)
	if err != nil {
		o.Failf("accepted/unusable", "client and server both accepted a configuration with the user name %q (%d bytes, %d characters) and a password of %d bytes, but no proxy connection can be opened with it: %v", name, len(name), utf8.RuneCountInString(name), len(pw), err)
		return
	}
	defer conn.Close()
	sc, err := env.ServerSide(0, 10*time.Second)
	if err != nil {
		o.Failf("accepted/unusable", "accepted configuration (user name %q, %d bytes): the server application never got the connection: %v", name, len(name), err)
		return
	}
	defer sc.Conn.Close()
	if sc.User != name {
		o.Failf("accepted/wrong-user", "accepted configuration: the connection of user %q was attributed to %q", name, sc.User)
		return
	}
	conn.Write([]byte("ping"))
	buf := make([]byte, 4)
	sc.Conn.SetReadDeadline(time.Now().Add(10 * time.Second))
	got := 0
	for got < 4 {
		n, err := sc.Conn.Read(buf[got:])
		got += n
		if err != nil {
			break
		}
	}
	if string(buf[:got]) != "ping" {
		o.Failf("accepted/data", "accepted configuration (user name %q): the server application read %q instead of \"ping\"", name, buf[:got])
	}
	return
}

func TestC20Accepted(t *testing.T) {
	pbt.Run(t, "C20", "accepted", genAccepted, propAccepted)
}
