// C01 — TCP transport: every byte delivered exactly once, in order, to the
// right session. See DESIGN.md section 3.1.
package c01

import (
	"fmt"
	"testing"
	"time"

	"pgregory.net/rapid"

	"verif/harness/e2e"
	"verif/harness/pbt"
	"verif/harness/simnet"
)

type Case struct {
	Cfg       e2e.Config     `json:"cfg"`
	Progs     []e2e.SessProg `json:"progs"`
	ChunksC2S []int          `json:"chunksC2S,omitempty"`
	ChunksS2C []int          `json:"chunksS2C,omitempty"`
	BufC2S    int            `json:"bufC2S,omitempty"`
	BufS2C    int            `json:"bufS2C,omitempty"`
	Salt      uint64         `json:"salt"`
	Big       bool           `json:"big,omitempty"`
	Backlog   bool           `json:"backlog,omitempty"` // labelling only: the deep-backlog class
	// AbandonMs > 0: the client application of session 0 (of at least two)
	// closes its connection that long after opening it, while its peer is still
	// sending; the oracle then speaks about the other sessions only
	AbandonMs int `json:"abandonMs,omitempty"`
}

var boundarySizes = []int{0, 1, 2, 3, 4, 5, 6, 7, 8, 9, 15, 16, 17, 20, 24, 28, 35, 1023, 1024, 1025, 4096, 32763, 32764, 32765, 32767, 32768, 32769, 65535, 65536, 65537}
var smallChunks = []int{1, 2, 3, 23, 24, 25, 47, 48, 49, 71, 72, 73, 87, 88, 89, 255, 256}
var bigChunks = []int{1000, 1448, 4096, 32768, 65536, 0}
var readSizes = []int{1, 2, 3, 7, 100, 1024, 4096, 32768, 65536, 131072}

func genWrites(t *rapid.T, label string, budget int, big bool) []int {
	n := rapid.IntRange(0, 6).Draw(t, label+".n")
	var ws []int
	total := 0
	for i := 0; i < n; i++ {
		var w int
		switch rapid.IntRange(0, 9).Draw(t, label+".class") {
		case 0, 1, 2, 3, 4:
			w = rapid.SampledFrom(boundarySizes).Draw(t, label+".bsz")
		case 5, 6:
			w = rapid.IntRange(0, 2048).Draw(t, label+".small")
		case 7:
			w = rapid.IntRange(0, 70000).Draw(t, label+".mid")
		default:
			if big {
				w = rapid.SampledFrom([]int{262144, 1 << 20, 1<<20 + 1, 3 << 20}).Draw(t, label+".big")
			} else {
				w = rapid.SampledFrom([]int{98304, 131071, 262144}).Draw(t, label+".big")
			}
		}
		if total+w > budget {
			w = budget - total
			if w < 0 {
				w = 0
			}
		}
		total += w
		ws = append(ws, w)
	}
	return ws
}

func genCase(t *rapid.T) Case {
	var c Case
	c.Salt = rapid.Uint64().Draw(t, "salt")
	c.Cfg.NoWait = rapid.Bool().Draw(t, "noWait")
	if rapid.IntRange(0, 3).Draw(t, "rawClient") == 0 {
		c.Cfg.RawClient, c.Cfg.NoWait = true, true
	}
	c.Cfg.Multiplex = rapid.IntRange(0, 4).Draw(t, "multiplex")
	c.Cfg.ClientPattern = e2e.GenPattern(t, "cp", 3)
	c.Cfg.ServerPattern = e2e.GenPattern(t, "sp", 3)
	nSess := rapid.SampledFrom([]int{1, 1, 2, 3, 4, 6}).Draw(t, "nSess")
	smallChunk := rapid.IntRange(0, 2).Draw(t, "chunkClass") == 0
	c.Big = pbt.Thorough() && !smallChunk && rapid.IntRange(0, 5).Draw(t, "bigClass") == 0
	budget := 300000
	if smallChunk {
		budget = 24000
	}
	if c.Big {
		budget = 6 << 20
	}
	budget /= nSess
	genChunks := func(label string) []int {
		n := rapid.IntRange(0, 5).Draw(t, label+".n")
		var cs []int
		for i := 0; i < n; i++ {
			if smallChunk {
				cs = append(cs, rapid.SampledFrom(smallChunks).Draw(t, label))
			} else {
				cs = append(cs, rapid.SampledFrom(bigChunks).Draw(t, label))
			}
		}
		return cs
	}
	c.ChunksC2S = genChunks("chunksC2S")
	c.ChunksS2C = genChunks("chunksS2C")
	c.BufC2S = rapid.SampledFrom([]int{0, 0, 1, 100, 4096, 65536}).Draw(t, "bufC2S")
	c.BufS2C = rapid.SampledFrom([]int{0, 0, 1, 100, 4096, 65536}).Draw(t, "bufS2C")
	if c.Big || budget > 100000 {
		// tiny link buffers with large transfers only cost time
		if c.BufC2S > 0 && c.BufC2S < 4096 {
			c.BufC2S = 4096
		}
		if c.BufS2C > 0 && c.BufS2C < 4096 {
			c.BufS2C = 4096
		}
	}
	for i := 0; i < nSess; i++ {
		var p e2e.SessProg
		p.Up.Writes = genWrites(t, fmt.Sprintf("s%d.up", i), budget, c.Big)
		p.Down.Writes = genWrites(t, fmt.Sprintf("s%d.down", i), budget, c.Big)
		if c.Cfg.NoWait {
			// 0-RTT: the client writes first. Aim the first write at the
			// 1024-byte piggyback boundary (request + data in one write).
			req := e2e.Socks5RequestLen(i)
			first := rapid.SampledFrom([]int{0, 1, 1024 - req - 1, 1024 - req, 1024 - req + 1, 2000}).Draw(t, fmt.Sprintf("s%d.first", i))
			if len(p.Up.Writes) == 0 {
				p.Up.Writes = []int{first}
			} else if rapid.Bool().Draw(t, fmt.Sprintf("s%d.useFirst", i)) {
				p.Up.Writes[0] = first
			}
		}
		nr := rapid.IntRange(0, 3).Draw(t, fmt.Sprintf("s%d.nr", i))
		for j := 0; j < nr; j++ {
			p.Up.Reads = append(p.Up.Reads, rapid.SampledFrom(readSizes).Draw(t, "rsz"))
		}
		nr = rapid.IntRange(0, 3).Draw(t, fmt.Sprintf("s%d.nrd", i))
		for j := 0; j < nr; j++ {
			p.Down.Reads = append(p.Down.Reads, rapid.SampledFrom(readSizes).Draw(t, "rsz"))
		}
		if c.Big || budget > 50000 {
			// one-byte application reads over megabytes only cost time
			for j := range p.Up.Reads {
				if p.Up.Reads[j] < 100 {
					p.Up.Reads[j] = 100
				}
			}
			for j := range p.Down.Reads {
				if p.Down.Reads[j] < 100 {
					p.Down.Reads[j] = 100
				}
			}
		}
		p.Up.DelayMs = rapid.SampledFrom([]int{0, 0, 0, 1, 5}).Draw(t, "delayUp")
		p.Down.DelayMs = rapid.SampledFrom([]int{0, 0, 0, 1, 5}).Draw(t, "delayDown")
		c.Progs = append(c.Progs, p)
	}
	// deep backlog: more than 4096 *segments* (the capacity of a session's
	// receive queue) reach an application that is not reading yet
	if rapid.IntRange(0, 39).Draw(t, "backlog") == 0 {
		n := rapid.IntRange(4097, 4700).Draw(t, "backlogWrites")
		ws := make([]int, n)
		for i := range ws {
			ws[i] = 1 + i%2
		}
		d := &c.Progs[0].Down
		if rapid.Bool().Draw(t, "backlogUp") {
			d = &c.Progs[0].Up
		}
		d.Writes, d.ReadLag, d.Reads = ws, rapid.SampledFrom([]int{2500, 5000}).Draw(t, "backlogLag"), nil
		c.ChunksC2S, c.ChunksS2C, c.BufC2S, c.BufS2C = nil, nil, 0, 0
		c.Backlog = true
	}
	// an abandoned sibling: session 0 is closed by its client application while
	// its peer still sends; the sessions that share its connection go on
	if !c.Backlog && len(c.Progs) >= 2 && rapid.IntRange(0, 5).Draw(t, "abandon") == 0 {
		c.AbandonMs = rapid.SampledFrom([]int{1, 5, 30, 100}).Draw(t, "abandonMs")
		// the abandoned session's server keeps writing for a while
		ws := make([]int, 40)
		for i := range ws {
			ws[i] = rapid.SampledFrom([]int{1000, 8000, 32768}).Draw(t, "abandonedDown")
		}
		c.Progs[0].Down.Writes, c.Progs[0].Down.ReadLag = ws, 0
		// and the siblings are still in the middle of their transfers then
		for i := 1; i < len(c.Progs); i++ {
			c.Progs[i].Down.Writes = append(c.Progs[i].Down.Writes, 50000, 50000, 50000)
			c.Progs[i].Down.DelayMs = 0
		}
		if c.Cfg.Multiplex == 1 {
			c.Cfg.Multiplex = 4
		}
	}
	return c
}

func isBoundary(w int) bool {
	for _, b := range boundarySizes {
		if w == b && w > 8 {
			return true
		}
	}
	return false
}

func prop(c Case) (o pbt.Outcome) {
	sn := simnet.NewStreamNet(simnet.StreamOpts{BufC2S: c.BufC2S, BufS2C: c.BufS2C, ChunksC2S: c.ChunksC2S, ChunksS2C: c.ChunksS2C})
	env, err := e2e.Start(c.Cfg, sn, nil)
	if err != nil {
		// Every generated configuration is valid; refusing to start is a failure
		// of "for every traffic-pattern setting either side may use".
		o.Failf("start", "valid configuration did not start: %v", err)
		return
	}
	defer env.StopBounded(3 * time.Second)
	maxWall := 90 * time.Second
	if c.Big {
		maxWall = 240 * time.Second
	}
	topts := e2e.TransferOpts{Salt: c.Salt, StallAfter: 40 * time.Second, MaxWall: maxWall, TailCheck: 5 * time.Millisecond}
	if c.AbandonMs > 0 && len(c.Progs) >= 2 {
		topts.Abandon = map[int]time.Duration{0: time.Duration(c.AbandonMs) * time.Millisecond}
	}
	res := e2e.RunTransfer(env, c.Progs, topts)
	o.Obs = res

	// classification
	links := len(sn.Links())
	multiSeg := false
	boundary := false
	var total int64
	for _, p := range c.Progs {
		for _, d := range []e2e.DirProg{p.Up, p.Down} {
			if len(d.Writes) >= 2 || d.Total() > 32768 {
				multiSeg = true
			}
			for _, w := range d.Writes {
				if isBoundary(w) {
					boundary = true
				}
			}
			total += d.Total()
		}
	}
	smallChunk := false
	for _, ch := range append(append([]int{}, c.ChunksC2S...), c.ChunksS2C...) {
		if ch > 0 && ch < 72 {
			smallChunk = true
		}
	}
	shared := links < len(c.Progs)
	nonDefault := !c.Cfg.ClientPattern.IsDefault() || !c.Cfg.ServerPattern.IsDefault()
	o.NonTrivial = multiSeg && (boundary || nonDefault || shared || smallChunk)
	o.Label("sessions=%d", len(c.Progs))
	o.Label("shared=%v", shared)
	o.Label("noWait=%v", c.Cfg.NoWait)
	o.Label("rawClient=%v", c.Cfg.RawClient)
	o.Label("deepBacklog=%v", c.Backlog)
	o.Label("smallChunk=%v", smallChunk)
	o.Label("boundary=%v", boundary)
	o.Label("leClient=%v", c.Cfg.ClientPattern.LowEntropy())
	o.Label("leServer=%v", c.Cfg.ServerPattern.LowEntropy())
	switch {
	case total == 0:
		o.Label("bytes=0")
	case total < 10000:
		o.Label("bytes<10K")
	case total < 1000000:
		o.Label("bytes<1M")
	default:
		o.Label("bytes>=1M")
	}

	// oracle
	expectUser := e2e.DefaultUsers[0].Name
	abandoned := func(i int) bool { return c.AbandonMs > 0 && len(c.Progs) >= 2 && i == 0 }
	o.Label("abandonedSibling=%v", abandoned(0))
	for i, s := range res.Sessions {
		if abandoned(i) {
			// closed by its own application: only wrong bytes would matter
			for d, dr := range []e2e.DirResult{s.Up, s.Down} {
				if dr.Mismatch != "" {
					o.Failf("data", "abandoned session %d dir %d: %s", i, d, dr.Mismatch)
					return
				}
			}
			continue
		}
		if s.OpenErr != "" && c.AbandonMs > 0 && len(c.Progs) >= 2 && s.Up.Read == 0 && s.Down.Read == 0 {
			// A sibling that could not even open while another session of the same
			// client was being closed (seen once in 1600 cases: its first write
			// failed with "closed pipe", presumably placed on a connection that was
			// just being retired). An error before any byte moved is outside what
			// C01 states; it is counted, not judged here.
			o.Inconclusive = fmt.Sprintf("session %d could not open while session 0 was being closed by its application: %s", i, s.OpenErr)
			o.Label("siblingOpenFailedDuringAbandon")
			o.Obs = res
			return
		}
		if s.OpenErr != "" {
			o.Failf("open", "session %d failed to open: %s", i, s.OpenErr)
			return
		}
		if s.User != expectUser {
			o.Failf("user", "session %d attributed to user %q, want %q", i, s.User, expectUser)
			return
		}
		for d, dr := range []e2e.DirResult{s.Up, s.Down} {
			name := []string{"client->server", "server->client"}[d]
			if dr.Mismatch != "" {
				o.Failf("data", "session %d %s: %s", i, name, dr.Mismatch)
				return
			}
			if dr.Extra != "" {
				o.Failf("data", "session %d %s: %s", i, name, dr.Extra)
				return
			}
			if dr.ShortWrite != "" {
				o.Failf("shortwrite", "session %d %s: %s", i, name, dr.ShortWrite)
				return
			}
		}
	}
	for i, s := range res.Sessions {
		if abandoned(i) {
			continue
		}
		for d, dr := range []e2e.DirResult{s.Up, s.Down} {
			name := []string{"client->server", "server->client"}[d]
			if dr.WriteErr != "" {
				o.Failf("error", "session %d %s: nobody closed and the network injected no fault, yet %s", i, name, dr.WriteErr)
				return
			}
			if dr.ReadErr != "" {
				o.Failf("error", "session %d %s: nobody closed and the network injected no fault, yet %s", i, name, dr.ReadErr)
				return
			}
		}
	}
	if res.Stalled {
		o.Failf("stall", "transfer stalled: no byte delivered for 40 s on a fault-free network (%d bytes moved)", res.Progress)
		return
	}
	for i, s := range res.Sessions {
		if abandoned(i) {
			continue
		}
		if !(s.Up.DoneReading && s.Up.DoneWriting && s.Down.DoneReading && s.Down.DoneWriting) {
			o.Inconclusive = fmt.Sprintf("session %d not complete within the wall budget (still progressing)", i)
			return
		}
	}
	return
}

func TestC01(t *testing.T) {
	pbt.Run(t, "C01", "transfer", genCase, prop)
}
