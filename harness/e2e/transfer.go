package e2e

import (
	"context"
	"errors"
	"fmt"
	"io"
	"net"
	"sync"
	"sync/atomic"
	"time"

	"github.com/enfein/mieru/v3/pkg/stderror"
)

// PRF byte streams -----------------------------------------------------------

func mix64(x uint64) uint64 {
	x ^= x >> 30
	x *= 0xbf58476d1ce4e5b9
	x ^= x >> 27
	x *= 0x94d049bb133111eb
	x ^= x >> 31
	return x
}

// StreamKey identifies one (session, direction) byte stream of a case.
func StreamKey(salt uint64, sess int, dir int) uint64 {
	return mix64(salt*0x9E3779B97F4A7C15 + uint64(sess)*1000003 + uint64(dir)*7919 + 1)
}

// PRFByte returns byte number off of the stream with the given key.
func PRFByte(key uint64, off int64) byte {
	blk := mix64(key + uint64(off>>3)*0x9E3779B97F4A7C15)
	return byte(blk >> (8 * uint(off&7)))
}

// PRFFill fills p with stream bytes starting at off.
func PRFFill(key uint64, off int64, p []byte) {
	for i := range p {
		p[i] = PRFByte(key, off+int64(i))
	}
}

// Transfer programs ----------------------------------------------------------

// DirProg is what one application does in one direction of one session.
type DirProg struct {
	Writes  []int `json:"w"`             // sizes of successive Write calls
	Reads   []int `json:"r,omitempty"`   // read buffer sizes, cyclic (empty = 32 KiB)
	DelayMs int   `json:"d,omitempty"`   // the writer starts after this delay
	ReadLag int   `json:"lag,omitempty"` // the reader starts after this delay (ms)
}

func (d DirProg) Total() int64 {
	var n int64
	for _, w := range d.Writes {
		n += int64(w)
	}
	return n
}

// SessProg is the program of one session: Up is client->server.
type SessProg struct {
	Up   DirProg `json:"up"`
	Down DirProg `json:"down"`
}

// DirResult is the observation of one direction of one session.
type DirResult struct {
	Written     int64  `json:"written"`
	WriteErr    string `json:"writeErr,omitempty"`
	ShortWrite  string `json:"shortWrite,omitempty"`
	Read        int64  `json:"read"`
	ReadErr     string `json:"readErr,omitempty"`
	Mismatch    string `json:"mismatch,omitempty"` // first wrong byte, classified
	Timeouts    int    `json:"timeouts,omitempty"` // retryable read timeouts seen
	Extra       string `json:"extra,omitempty"`    // bytes delivered after the end of the stream
	ReadCalls   int    `json:"readCalls"`
	ZeroReads   int    `json:"zeroReads,omitempty"`
	DoneWriting bool   `json:"doneWriting"`
	DoneReading bool   `json:"doneReading"`
}

// SessResult is the observation of one session.
type SessResult struct {
	Idx     int       `json:"idx"`
	OpenErr string    `json:"openErr,omitempty"`
	User    string    `json:"user,omitempty"`
	Up      DirResult `json:"up"`
	Down    DirResult `json:"down"`
}

// RunResult is the observation of a whole transfer run.
type RunResult struct {
	Sessions []SessResult `json:"sessions"`
	Stalled  bool         `json:"stalled,omitempty"`
	Elapsed  float64      `json:"elapsedS"`
	Progress int64        `json:"progressBytes"`
}

// IsTimeout reports whether err is a deadline error (retryable on a net.Conn).
func IsTimeout(err error) bool {
	var ne net.Error
	if errors.As(err, &ne) && ne.Timeout() {
		return true
	}
	// mieru's sessions report an expired deadline as stderror.ErrTimeout
	return errors.Is(err, stderror.ErrTimeout)
}

// TransferOpts bound a run.
type TransferOpts struct {
	Salt uint64
	// StallAfter: the run is declared stalled when no byte was delivered to
	// any application for this long.
	StallAfter time.Duration
	// MaxWall bounds the whole run; reaching it while still progressing is
	// "inconclusive", not a stall.
	MaxWall time.Duration
	// KeepOpen keeps sessions open on return (caller closes).
	KeepOpen bool
	// IdxBase is added to the session indices used for the destination names
	// (so several runs on one environment do not collide).
	IdxBase int
	// TailCheck, if > 0, makes every reader wait this long after its last
	// expected byte and report any further byte as a violation (exactly-once).
	TailCheck time.Duration
	// Abandon[i] = d > 0: the client application of session i closes its
	// connection d after it was opened, whatever is still in flight (the user
	// pressed stop). What that session reports afterwards is the caller's to
	// ignore; the other sessions must not notice.
	Abandon map[int]time.Duration
}

type classifyCtx struct {
	salt  uint64
	nSess int
	progs []SessProg
}

// classify explains a wrong byte: does the data read at offset off of stream
// (sess, dir) match another position of the same stream or another stream?
func (c *classifyCtx) classify(sess, dir int, off int64, got []byte) string {
	want := make([]byte, len(got))
	PRFFill(StreamKey(c.salt, sess, dir), off, want)
	match := func(key uint64, at int64) bool {
		for i := range got {
			if PRFByte(key, at+int64(i)) != got[i] {
				return false
			}
		}
		return true
	}
	if len(got) >= 6 {
		for s := 0; s < c.nSess; s++ {
			for d := 0; d < 2; d++ {
				key := StreamKey(c.salt, s, d)
				var total int64
				if d == 0 {
					total = c.progs[s].Up.Total()
				} else {
					total = c.progs[s].Down.Total()
				}
				// scan near offsets first, then all
				for at := int64(0); at+int64(len(got)) <= total; at++ {
					if s == sess && d == dir && at == off {
						continue
					}
					if match(key, at) {
						switch {
						case s == sess && d == dir && at < off:
							return fmt.Sprintf("duplicate/replayed data: bytes of own stream offset %d appear at offset %d", at, off)
						case s == sess && d == dir:
							return fmt.Sprintf("lost data: bytes of own stream offset %d appear at offset %d", at, off)
						default:
							return fmt.Sprintf("cross-talk: bytes of session %d dir %d offset %d appear in session %d dir %d at offset %d", s, d, at, sess, dir, off)
						}
					}
				}
			}
		}
	}
	return fmt.Sprintf("corrupted data at offset %d: got % x want % x", off, got, want)
}

// endpoint pair of one session
type sessConns struct {
	c, s net.Conn
}

// RunTransfer opens len(progs) sessions concurrently on env and executes the
// programs. Every stream is checked incrementally against its PRF model.
func RunTransfer(env *Env, progs []SessProg, opts TransferOpts) *RunResult {
	if opts.StallAfter == 0 {
		opts.StallAfter = 30 * time.Second
	}
	if opts.MaxWall == 0 {
		opts.MaxWall = 120 * time.Second
	}
	res := &RunResult{Sessions: make([]SessResult, len(progs))}
	cc := &classifyCtx{salt: opts.Salt, nSess: len(progs), progs: progs}
	start := time.Now()
	var progress atomic.Int64
	var lastProgress atomic.Int64
	lastProgress.Store(time.Now().UnixNano())
	bump := func(n int) {
		if n > 0 {
			progress.Add(int64(n))
			lastProgress.Store(time.Now().UnixNano())
		}
	}
	ctx, cancel := context.WithTimeout(context.Background(), opts.MaxWall)
	defer cancel()

	conns := make([]sessConns, len(progs))
	var connMu sync.Mutex
	abort := make(chan struct{})
	var abortOnce sync.Once
	doAbort := func() {
		abortOnce.Do(func() {
			close(abort)
			connMu.Lock()
			for _, sc := range conns {
				if sc.c != nil {
					sc.c.Close()
				}
				if sc.s != nil {
					sc.s.Close()
				}
			}
			connMu.Unlock()
		})
	}

	var wg sync.WaitGroup
	for i := range progs {
		wg.Add(1)
		go func(i int) {
			defer wg.Done()
			sr := &res.Sessions[i]
			sr.Idx = i
			prog := progs[i]
			c, err := env.Dial(ctx, opts.IdxBase+i)
			if err != nil {
				sr.OpenErr = "dial: " + err.Error()
				return
			}
			connMu.Lock()
			conns[i].c = c
			connMu.Unlock()
			bump(1)
			if d := opts.Abandon[i]; d > 0 {
				t := time.AfterFunc(d, func() {
					c.Close()
					// its server application notices and gives up a little later
					time.AfterFunc(1500*time.Millisecond, func() {
						connMu.Lock()
						if conns[i].s != nil {
							conns[i].s.Close()
						}
						connMu.Unlock()
					})
				})
				defer t.Stop()
			}

			upKey := StreamKey(opts.Salt, i, 0)
			downKey := StreamKey(opts.Salt, i, 1)
			var inner sync.WaitGroup

			// client writer (must run first in NO_WAIT mode: the handshake
			// happens on the first write)
			firstWriteDone := make(chan struct{})
			var clientWriterDone atomic.Bool
			inner.Add(1)
			go func() {
				defer inner.Done()
				runWriter(c, upKey, prog.Up, &sr.Up, bump, abort, firstWriteDone)
				clientWriterDone.Store(true)
			}()
			if env.Cfg.NoWait || env.Cfg.RawClient {
				// In 0-RTT mode the client writes first, as documented.
				select {
				case <-firstWriteDone:
				case <-abort:
				}
			}
			// client reader
			inner.Add(1)
			go func() {
				defer inner.Done()
				runReader(c, downKey, prog.Down, &sr.Down, bump, abort, opts.TailCheck, func(off int64, got []byte) string { return cc.classify(i, 1, off, got) })
			}()
			// server side
			sideWait := opts.MaxWall
			if d := opts.Abandon[i]; d > 0 {
				sideWait = d + 3*time.Second // it may be gone before the server application ever saw it
			} else if len(opts.Abandon) > 0 && sideWait > 15*time.Second {
				sideWait = 15 * time.Second // a sibling that has not appeared by then will not (see C01)
			}
			// a client whose very first write failed will never appear at the
			// server: do not wait the whole wall budget for it
			var sc *ServerConn
			for waited := time.Duration(0); ; waited += 500 * time.Millisecond {
				sc, err = env.ServerSide(opts.IdxBase+i, 500*time.Millisecond)
				if err == nil || waited >= sideWait {
					break
				}
				if clientWriterDone.Load() && sr.Up.WriteErr != "" && sr.Up.Written == 0 && waited >= 3*time.Second {
					break
				}
			}
			if err != nil {
				sr.OpenErr = "server side: " + err.Error()
				if opts.Abandon[i] > 0 {
					inner.Wait()
					return
				}
				doAbort()
				inner.Wait()
				return
			}
			sr.User = sc.User
			connMu.Lock()
			conns[i].s = sc.Conn
			connMu.Unlock()
			inner.Add(2)
			go func() {
				defer inner.Done()
				runWriter(sc.Conn, downKey, prog.Down, &sr.Down, bump, abort, nil)
			}()
			go func() {
				defer inner.Done()
				runReader(sc.Conn, upKey, prog.Up, &sr.Up, bump, abort, opts.TailCheck, func(off int64, got []byte) string { return cc.classify(i, 0, off, got) })
			}()
			inner.Wait()
		}(i)
	}

	done := make(chan struct{})
	go func() { wg.Wait(); close(done) }()
	tick := time.NewTicker(100 * time.Millisecond)
	defer tick.Stop()
wait:
	for {
		select {
		case <-done:
			break wait
		case <-tick.C:
			idle := time.Since(time.Unix(0, lastProgress.Load()))
			if idle > opts.StallAfter {
				res.Stalled = true
				doAbort()
				<-done
				break wait
			}
			if time.Since(start) > opts.MaxWall {
				doAbort()
				<-done
				break wait
			}
		}
	}
	res.Elapsed = time.Since(start).Seconds()
	res.Progress = progress.Load()
	if !opts.KeepOpen {
		connMu.Lock()
		for _, sc := range conns {
			if sc.c != nil {
				sc.c.Close()
			}
			if sc.s != nil {
				sc.s.Close()
			}
		}
		connMu.Unlock()
	}
	return res
}

func runWriter(conn net.Conn, key uint64, prog DirProg, dr *DirResult, bump func(int), abort chan struct{}, firstDone chan struct{}) {
	signalled := false
	signal := func() {
		if firstDone != nil && !signalled {
			signalled = true
			close(firstDone)
		}
	}
	defer signal()
	if prog.DelayMs > 0 {
		select {
		case <-time.After(time.Duration(prog.DelayMs) * time.Millisecond):
		case <-abort:
			return
		}
	}
	var off int64
	var buf []byte
	for _, w := range prog.Writes {
		select {
		case <-abort:
			return
		default:
		}
		if cap(buf) < w {
			buf = make([]byte, w)
		}
		p := buf[:w]
		PRFFill(key, off, p)
		n, err := conn.Write(p)
		// net.Conn: Write must not retain p. The caller re-uses its buffer at
		// once (as io.Copy does), so anything the implementation still reads
		// from it later shows up as wrong bytes.
		for i := range p {
			p[i] = 0xA5
		}
		if n > 0 {
			off += int64(n)
			dr.Written = off
			bump(n)
		}
		if err != nil {
			dr.WriteErr = fmt.Sprintf("write #%d of %d bytes at offset %d: n=%d err=%v", len(prog.Writes), w, off, n, err)
			return
		}
		if n != w {
			dr.ShortWrite = fmt.Sprintf("write of %d bytes at offset %d returned n=%d with nil error", w, off-int64(n), n)
			return
		}
		signal()
	}
	dr.Written = off
	dr.DoneWriting = true
}

func runReader(conn net.Conn, key uint64, prog DirProg, dr *DirResult, bump func(int), abort chan struct{}, tail time.Duration, classify func(off int64, got []byte) string) {
	total := prog.Total()
	if prog.ReadLag > 0 {
		select {
		case <-time.After(time.Duration(prog.ReadLag) * time.Millisecond):
		case <-abort:
			return
		}
	}
	var off int64
	ri := 0
	buf := make([]byte, 32768)
	for off < total {
		select {
		case <-abort:
			return
		default:
		}
		sz := 32768
		if len(prog.Reads) > 0 {
			sz = prog.Reads[ri%len(prog.Reads)]
			ri++
			if sz <= 0 {
				sz = 1
			}
		}
		if cap(buf) < sz {
			buf = make([]byte, sz)
		}
		p := buf[:sz]
		n, err := conn.Read(p)
		dr.ReadCalls++
		if n > 0 {
			// verify
			for i := 0; i < n; i++ {
				if off+int64(i) >= total {
					dr.Mismatch = fmt.Sprintf("read %d bytes beyond the %d bytes that were written", off+int64(n)-total, total)
					dr.Read = off
					return
				}
				if p[i] != PRFByte(key, off+int64(i)) {
					end := i + 16
					if end > n {
						end = n
					}
					dr.Mismatch = classify(off+int64(i), append([]byte(nil), p[i:end]...))
					dr.Read = off + int64(i)
					return
				}
			}
			off += int64(n)
			dr.Read = off
			bump(n)
		} else if err == nil {
			dr.ZeroReads++
			if dr.ZeroReads > 1000 {
				dr.ReadErr = "Read keeps returning (0, nil)"
				return
			}
		}
		if err != nil {
			if IsTimeout(err) {
				dr.Timeouts++
				continue
			}
			if err == io.EOF {
				dr.ReadErr = fmt.Sprintf("EOF after %d of %d bytes", off, total)
			} else {
				dr.ReadErr = fmt.Sprintf("read error after %d of %d bytes: %v", off, total, err)
			}
			return
		}
	}
	dr.DoneReading = true
	if tail > 0 {
		conn.SetReadDeadline(time.Now().Add(tail))
		var one [64]byte
		n, _ := conn.Read(one[:])
		conn.SetReadDeadline(time.Time{})
		if n > 0 {
			dr.Extra = fmt.Sprintf("%d extra bytes delivered after the %d bytes written: % x", n, total, one[:n])
		}
	}
}
