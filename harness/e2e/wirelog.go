package e2e

import (
	"fmt"
	"os"
	"sync/atomic"
	"time"

	"verif/harness/refproto"
	"verif/harness/simnet"
)

// KeysFor returns the candidate keys (three time slots around now, and around
// the start time if it lies in another slot) of all given users, plus the
// user index for every key.
func KeysFor(users []UserSpec, times ...time.Time) (keys [][]byte, owner []int) {
	seen := map[int64]bool{}
	var slots []int64
	for _, tm := range times {
		s := refproto.RoundSlot(tm.Unix())
		for _, x := range []int64{s - 120, s, s + 120} {
			if !seen[x] {
				seen[x] = true
				slots = append(slots, x)
			}
		}
	}
	for ui, u := range users {
		hp := refproto.HashedPassword(u.Password, u.Name)
		for _, s := range slots {
			keys = append(keys, refproto.KeyForSlot(hp, s))
			owner = append(owner, ui)
		}
	}
	return
}

// DecodedLink is the reference decoding of one recorded TCP link.
type DecodedLink struct {
	LinkID    int
	C2S, S2C  []*refproto.Segment
	ResC2S    int // undecodable residue (bytes)
	ResS2C    int
	ErrC2S    error
	ErrS2C    error
	UserC2S   int // user whose key opened the first client segment (-1 if none)
	RawC2S    []byte
	RawS2C    []byte
	WritesC2S []simnet.WriteRec
	WritesS2C []simnet.WriteRec
}

// DecodeLinks decodes every recorded link of a stream network (requires
// StreamOpts.Record).
func DecodeLinks(sn *simnet.StreamNet, users []UserSpec, times ...time.Time) []*DecodedLink {
	keys, owner := KeysFor(users, times...)
	var out []*DecodedLink
	for _, l := range sn.Links() {
		dl := &DecodedLink{LinkID: l.ID, UserC2S: -1}
		dl.RawC2S, dl.RawS2C = l.SentC2S(), l.SentS2C()
		dl.WritesC2S, dl.WritesS2C = l.WritesC2S(), l.WritesS2C()
		dl.C2S, dl.ResC2S, dl.ErrC2S = refproto.DecodeStream(dl.RawC2S, keys)
		if len(dl.C2S) > 0 {
			dl.UserC2S = owner[dl.C2S[0].KeySlot]
		}
		dl.S2C, dl.ResS2C, dl.ErrS2C = refproto.DecodeStream(dl.RawS2C, keys)
		out = append(out, dl)
	}
	return out
}

// DecodedDatagram is the reference decoding of one recorded datagram.
type DecodedDatagram struct {
	D    *simnet.Datagram
	Seg  *refproto.Segment // nil if it did not decode
	Err  error
	User int
	// FromClient is true when the sender is not the server address.
	FromClient bool
}

// DecodeDatagrams decodes every datagram recorded by a packet network.
func DecodeDatagrams(dgrams []*simnet.Datagram, serverPort int, users []UserSpec, times ...time.Time) []*DecodedDatagram {
	keys, owner := KeysFor(users, times...)
	out := make([]*DecodedDatagram, 0, len(dgrams))
	for _, d := range dgrams {
		dd := &DecodedDatagram{D: d, User: -1, FromClient: d.From.Port != serverPort}
		seg, err := refproto.DecodeDatagram(d.Data, keys)
		dd.Seg, dd.Err = seg, err
		if seg != nil {
			dd.User = owner[seg.KeySlot]
		}
		out = append(out, dd)
	}
	return out
}

// SessionStream reassembles, from decoded segments of one direction, the
// payload byte stream of every session id (segments in wire order for TCP).
func SessionStream(segs []*refproto.Segment) map[uint32][]byte {
	out := map[uint32][]byte{}
	for _, s := range segs {
		if len(s.Payload) > 0 {
			out[s.Meta.SessionID] = append(out[s.Meta.SessionID], s.Payload...)
		}
	}
	return out
}

// DescribeSeg is a short human-readable rendering for messages.
func DescribeSeg(s *refproto.Segment) string {
	return fmt.Sprintf("{proto=%d sid=%d seq=%d unack=%d frag=%d pre=%d plen=%d suf=%d le=%d/%08x/%d/%d payload=%d}",
		s.Meta.Proto, s.Meta.SessionID, s.Meta.Seq, s.Meta.UnAck, s.Meta.Fragment, s.Meta.PrefixLen, s.Meta.PayloadLen, s.Meta.SuffixLen,
		s.Meta.Byte1, s.Meta.LEMask, s.Meta.LEExtracted, s.Meta.LERot, len(s.Payload))
}

var (
	uniqueCounter atomic.Uint64
	uniqueBase    = uint64(time.Now().UnixNano()) ^ uint64(os.Getpid())<<40
)

// UniqueNonce mixes a process-unique value into the first 12 bytes of a
// case-provided nonce. mieru keeps process-wide replay caches keyed by the
// first bytes of every segment, so a harness that re-used a nonce (rapid
// re-draws small values and re-runs cases while shrinking) would be treated
// as a replay attacker; this keeps reference-built segments fresh.
func UniqueNonce(caseNonce []byte) []byte {
	n := append([]byte(nil), caseNonce...)
	v := mix64(uniqueBase + uniqueCounter.Add(1)*0x9E3779B97F4A7C15)
	w := mix64(v ^ 0xabcdef12345)
	for i := 0; i < 8 && i < len(n); i++ {
		n[i] ^= byte(v >> (8 * uint(i)))
	}
	for i := 8; i < 12 && i < len(n); i++ {
		n[i] ^= byte(w >> (8 * uint(i-8)))
	}
	return n
}
