package e2e

import (
	"encoding/hex"

	pb "github.com/enfein/mieru/v3/pkg/appctl/appctlpb"
	"google.golang.org/protobuf/proto"
	"pgregory.net/rapid"
)

// PatternSpec is a JSON-friendly image of appctlpb.TrafficPattern in which
// every optional field may be set or unset.
type PatternSpec struct {
	Nil        bool     `json:"nil,omitempty"` // no traffic pattern at all
	Seed       *int32   `json:"seed,omitempty"`
	UnlockAll  *bool    `json:"unlockAll,omitempty"`
	FragEnable *bool    `json:"fragEnable,omitempty"`
	FragSleep  *int32   `json:"fragSleep,omitempty"`
	HasFrag    bool     `json:"hasFrag,omitempty"`
	HasNonce   bool     `json:"hasNonce,omitempty"`
	NonceType  *int32   `json:"nonceType,omitempty"`
	NonceAll   *bool    `json:"nonceAll,omitempty"`
	NonceMin   *int32   `json:"nonceMin,omitempty"`
	NonceMax   *int32   `json:"nonceMax,omitempty"`
	NonceHex   []string `json:"nonceHex,omitempty"`
	HasPad     bool     `json:"hasPad,omitempty"`
	PadMid     *int32   `json:"padMid,omitempty"`
	PadEnd     *int32   `json:"padEnd,omitempty"`
	HasLE      bool     `json:"hasLE,omitempty"`
	LEMode     *int32   `json:"leMode,omitempty"`
	LERot      *int32   `json:"leRot,omitempty"`
}

// Proto converts the spec to the protobuf message (nil if Nil).
func (s *PatternSpec) Proto() *pb.TrafficPattern {
	if s == nil || s.Nil {
		return nil
	}
	p := &pb.TrafficPattern{Seed: s.Seed, UnlockAll: s.UnlockAll}
	if s.HasFrag || s.FragEnable != nil || s.FragSleep != nil {
		p.TcpFragment = &pb.TCPFragment{Enable: s.FragEnable, MaxSleepMs: s.FragSleep}
	}
	if s.HasNonce || s.NonceType != nil || s.NonceAll != nil || s.NonceMin != nil || s.NonceMax != nil || len(s.NonceHex) > 0 {
		p.Nonce = &pb.NoncePattern{ApplyToAllUDPPacket: s.NonceAll, MinLen: s.NonceMin, MaxLen: s.NonceMax, CustomHexStrings: s.NonceHex}
		if s.NonceType != nil {
			p.Nonce.Type = pb.NonceType(*s.NonceType).Enum()
		}
	}
	if s.HasPad || s.PadMid != nil || s.PadEnd != nil {
		p.Padding = &pb.PaddingPattern{MaxMiddlePaddingLen: s.PadMid, MaxEndPaddingLen: s.PadEnd}
	}
	if s.HasLE || s.LEMode != nil || s.LERot != nil {
		p.LowEntropy = &pb.LowEntropyPattern{}
		if s.LEMode != nil {
			p.LowEntropy.Mode = pb.LowEntropyMode(*s.LEMode).Enum()
		}
		if s.LERot != nil {
			p.LowEntropy.MaskRotation = pb.LowEntropyMaskRotation(*s.LERot).Enum()
		}
	}
	return p
}

// IsDefault reports whether nothing is set explicitly.
func (s *PatternSpec) IsDefault() bool {
	if s == nil || s.Nil {
		return true
	}
	return s.Seed == nil && s.UnlockAll == nil && s.FragEnable == nil && s.FragSleep == nil && s.NonceType == nil &&
		s.NonceAll == nil && s.NonceMin == nil && s.NonceMax == nil && len(s.NonceHex) == 0 && s.PadMid == nil && s.PadEnd == nil &&
		s.LEMode == nil && s.LERot == nil
}

// LowEntropy reports whether the spec explicitly enables low entropy.
func (s *PatternSpec) LowEntropy() bool {
	return s != nil && !s.Nil && s.LEMode != nil && *s.LEMode != 0
}

func optInt32(t *rapid.T, label string, g *rapid.Generator[int32]) *int32 {
	if rapid.IntRange(0, 3).Draw(t, label+"?") == 0 {
		return nil
	}
	return proto.Int32(g.Draw(t, label))
}

func optBool(t *rapid.T, label string) *bool {
	switch rapid.IntRange(0, 2).Draw(t, label) {
	case 0:
		return nil
	case 1:
		return proto.Bool(false)
	}
	return proto.Bool(true)
}

// ValidRotations lists every defined LowEntropyMaskRotation value.
var ValidRotations = func() []int32 {
	r := []int32{0}
	for i := int32(1); i <= 15; i++ {
		r = append(r, i)
	}
	for i := int32(1); i <= 15; i++ {
		r = append(r, i*16)
	}
	return r
}()

// GenPattern draws a traffic pattern from the whole valid space (it always
// passes trafficpattern.Validate): every subset of explicitly set fields with
// boundary-heavy values. maxFragSleep bounds tcpFragment.maxSleepMs so cases
// stay fast (the code imposes 0..100; sleeping is only a delay).
func GenPattern(t *rapid.T, label string, maxFragSleep int32) PatternSpec {
	var s PatternSpec
	kind := rapid.IntRange(0, 9).Draw(t, label+".kind")
	if kind == 0 {
		s.Nil = true
		return s
	}
	if kind == 1 {
		return s // empty message: everything implicit
	}
	s.Seed = optInt32(t, label+".seed", rapid.Int32Range(0, 1<<30))
	s.UnlockAll = optBool(t, label+".unlockAll")
	s.FragEnable = optBool(t, label+".fragEnable")
	if maxFragSleep >= 0 {
		s.FragSleep = optInt32(t, label+".fragSleep", rapid.Int32Range(0, maxFragSleep))
		if s.FragSleep == nil && s.UnlockAll != nil && *s.UnlockAll {
			// implicit sleep may be up to 100 ms per fragment: keep cases fast
			s.FragSleep = proto.Int32(0)
		}
	}
	s.NonceType = optInt32(t, label+".nonceType", rapid.Int32Range(0, 3))
	s.NonceAll = optBool(t, label+".nonceAll")
	// minLen/maxLen: explicit values must satisfy min<=max when both are set.
	mn := optInt32(t, label+".nonceMin", rapid.SampledFrom([]int32{0, 1, 6, 11, 12}))
	mx := optInt32(t, label+".nonceMax", rapid.SampledFrom([]int32{0, 1, 6, 11, 12}))
	if mn != nil && mx != nil && *mn > *mx {
		mn, mx = mx, mn
	}
	s.NonceMin, s.NonceMax = mn, mx
	if s.NonceType != nil && *s.NonceType == 3 {
		n := rapid.IntRange(0, 3).Draw(t, label+".nhex")
		for i := 0; i < n; i++ {
			l := rapid.SampledFrom([]int{0, 1, 4, 11, 12}).Draw(t, label+".hexlen")
			b := rapid.SliceOfN(rapid.Byte(), l, l).Draw(t, label+".hex")
			s.NonceHex = append(s.NonceHex, hex.EncodeToString(b))
		}
	}
	s.PadMid = optInt32(t, label+".padMid", rapid.SampledFrom([]int32{0, 1, 127, 128, 254, 255}))
	s.PadEnd = optInt32(t, label+".padEnd", rapid.SampledFrom([]int32{0, 1, 127, 128, 254, 255}))
	s.LEMode = optInt32(t, label+".leMode", rapid.Int32Range(0, 4))
	if rapid.IntRange(0, 2).Draw(t, label+".leRot?") > 0 {
		s.LERot = proto.Int32(rapid.SampledFrom(ValidRotations).Draw(t, label+".leRot"))
	}
	return s
}
