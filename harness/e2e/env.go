// Package e2e runs real mieru clients and servers (apis/client, apis/server)
// on the harness-owned network and executes transfer programs on them.
package e2e

import (
	"context"
	"errors"
	"fmt"
	"github.com/enfein/mieru/v3/apis/trafficpattern"
	"github.com/enfein/mieru/v3/pkg/appctl/appctlcommon"
	"github.com/enfein/mieru/v3/pkg/common"
	"github.com/enfein/mieru/v3/pkg/protocol"
	"net"
	"strconv"
	"strings"
	"sync"
	"sync/atomic"
	"time"

	"github.com/enfein/mieru/v3/apis/client"
	"github.com/enfein/mieru/v3/apis/model"
	"github.com/enfein/mieru/v3/apis/server"
	pb "github.com/enfein/mieru/v3/pkg/appctl/appctlpb"
	"google.golang.org/protobuf/proto"

	"verif/harness/simnet"
)

// UserSpec is one registered user.
type UserSpec struct {
	Name     string `json:"name"`
	Password string `json:"password"`
}

// Config describes one client/server pair.
type Config struct {
	UDP           bool        `json:"udp,omitempty"`
	Users         []UserSpec  `json:"users,omitempty"`      // server users; default one user
	ClientUser    int         `json:"clientUser,omitempty"` // index into Users
	NoWait        bool        `json:"noWait,omitempty"`     // HANDSHAKE_NO_WAIT
	Multiplex     int         `json:"multiplex,omitempty"`  // 0 = default(LOW) .. see MultiplexLevel
	ClientMTU     int         `json:"clientMTU,omitempty"`  // 0 = default
	ServerMTU     int         `json:"serverMTU,omitempty"`  // 0 = default
	ClientPattern PatternSpec `json:"clientPattern"`
	ServerPattern PatternSpec `json:"serverPattern"`
	HintMandatory bool        `json:"hintMandatory,omitempty"`
	Port          int         `json:"port,omitempty"` // server port, default 7000
	// BothTransports makes the server listen on TCP and UDP (same port); the
	// client still uses the transport selected by UDP.
	BothTransports bool `json:"bothTransports,omitempty"`
	// RawClient: the client application talks to the session layer directly
	// (protocol.Mux.DialContext, as built by appctlcommon.NewClientMuxFromProfile)
	// instead of through apis/client: its very first Write carries the SOCKS5
	// request together with the first application bytes in ONE caller-owned
	// buffer that is overwritten as soon as Write returns.
	RawClient bool `json:"rawClient,omitempty"`
	// ServerMux: the server is a protocol.Mux assembled exactly as apis/server
	// does it (same calls, same order) but owned by the harness, so that the
	// user list can be reloaded while it runs (Env.ReloadUsers), which the
	// apis/server facade does not offer.
	ServerMux bool `json:"serverMux,omitempty"`
	// ServerBanner (only with ServerMux): a server application that speaks
	// first - the moment it gets a connection from Accept it writes these bytes,
	// before it reads the request.
	ServerBanner []byte `json:"-"`
	// Quotas[i] (days, megabytes pairs) are attached to server user i.
	Quotas map[int][][2]int32 `json:"quotas,omitempty"`
}

// Env is a running client/server pair.
type Env struct {
	Cfg    Config
	SNet   *simnet.StreamNet
	PNet   *simnet.PacketNet
	Server server.Server
	Client client.Client
	RawMux *protocol.Mux
	SrvMux *protocol.Mux // set when Cfg.ServerMux

	mu       sync.Mutex
	srvConns map[int]chan *ServerConn
	unknown  []*ServerConn
	accepts  int
	stopped  bool
	paused   bool // the server application does not call Accept for the time being
	gate     *sync.Cond
	acceptWG sync.WaitGroup
}

// ServerConn is a proxy connection accepted by the server application.
type ServerConn struct {
	Conn net.Conn
	Req  *model.Request
	User string
}

// DefaultUsers is used when Config.Users is empty.
var DefaultUsers = []UserSpec{{Name: "alice", Password: "correct horse"}}

func (c *Config) users() []UserSpec {
	if len(c.Users) == 0 {
		return DefaultUsers
	}
	return c.Users
}

func (c *Config) port() int {
	if c.Port == 0 {
		return 7000
	}
	return c.Port
}

// ServerConfigProto builds the server configuration.
func (c *Config) ServerConfigProto() *pb.ServerConfig {
	proto_ := pb.TransportProtocol_TCP
	if c.UDP {
		proto_ = pb.TransportProtocol_UDP
	}
	sc := &pb.ServerConfig{
		PortBindings:   []*pb.PortBinding{{Port: proto.Int32(int32(c.port())), Protocol: proto_.Enum()}},
		TrafficPattern: c.ServerPattern.Proto(),
	}
	if c.BothTransports {
		other := pb.TransportProtocol_UDP
		if c.UDP {
			other = pb.TransportProtocol_TCP
		}
		sc.PortBindings = append(sc.PortBindings, &pb.PortBinding{Port: proto.Int32(int32(c.port())), Protocol: other.Enum()})
	}
	for i, u := range c.users() {
		pu := &pb.User{Name: proto.String(u.Name), Password: proto.String(u.Password)}
		for _, q := range c.Quotas[i] {
			pu.Quotas = append(pu.Quotas, &pb.Quota{Days: proto.Int32(q[0]), Megabytes: proto.Int32(q[1])})
		}
		sc.Users = append(sc.Users, pu)
	}
	if c.ServerMTU != 0 {
		sc.Mtu = proto.Int32(int32(c.ServerMTU))
	}
	if c.HintMandatory {
		sc.AdvancedSettings = &pb.ServerAdvancedSettings{UserHintIsMandatory: proto.Bool(true)}
	}
	return sc
}

// ClientProfileProto builds the client profile.
func (c *Config) ClientProfileProto() *pb.ClientProfile {
	proto_ := pb.TransportProtocol_TCP
	if c.UDP {
		proto_ = pb.TransportProtocol_UDP
	}
	u := c.users()[c.ClientUser%len(c.users())]
	p := &pb.ClientProfile{
		ProfileName: proto.String("verif"),
		User:        &pb.User{Name: proto.String(u.Name), Password: proto.String(u.Password)},
		Servers: []*pb.ServerEndpoint{{
			IpAddress:    proto.String("10.0.0.1"),
			PortBindings: []*pb.PortBinding{{Port: proto.Int32(int32(c.port())), Protocol: proto_.Enum()}},
		}},
		TrafficPattern: c.ClientPattern.Proto(),
	}
	if c.ClientMTU != 0 {
		p.Mtu = proto.Int32(int32(c.ClientMTU))
	}
	switch c.Multiplex {
	case 1:
		p.Multiplexing = &pb.MultiplexingConfig{Level: pb.MultiplexingLevel_MULTIPLEXING_OFF.Enum()}
	case 2:
		p.Multiplexing = &pb.MultiplexingConfig{Level: pb.MultiplexingLevel_MULTIPLEXING_LOW.Enum()}
	case 3:
		p.Multiplexing = &pb.MultiplexingConfig{Level: pb.MultiplexingLevel_MULTIPLEXING_MIDDLE.Enum()}
	case 4:
		p.Multiplexing = &pb.MultiplexingConfig{Level: pb.MultiplexingLevel_MULTIPLEXING_HIGH.Enum()}
	}
	if c.NoWait {
		p.HandshakeMode = pb.HandshakeMode_HANDSHAKE_NO_WAIT.Enum()
	}
	return p
}

// StartServer creates the networks (if nil) and starts only the server.
func StartServer(cfg Config, sn *simnet.StreamNet, pn *simnet.PacketNet) (*Env, error) {
	e := &Env{Cfg: cfg, SNet: sn, PNet: pn, srvConns: map[int]chan *ServerConn{}}
	if e.SNet == nil {
		e.SNet = simnet.NewStreamNet(simnet.StreamOpts{})
	}
	if e.PNet == nil {
		e.PNet = simnet.NewPacketNet()
	}
	if cfg.ServerMux {
		ms, err := newMuxServer(cfg.ServerConfigProto(), e.SNet, simnet.ServerFactory{N: e.PNet})
		if err != nil {
			return nil, err
		}
		ms.banner = cfg.ServerBanner
		e.Server, e.SrvMux = ms, ms.mux
		e.acceptWG.Add(1)
		go e.acceptLoop()
		return e, nil
	}
	e.Server = server.NewServer()
	if err := e.Server.Store(&server.ServerConfig{
		Config:                cfg.ServerConfigProto(),
		StreamListenerFactory: e.SNet,
		PacketListenerFactory: simnet.ServerFactory{N: e.PNet},
	}); err != nil {
		return nil, fmt.Errorf("server.Store: %w", err)
	}
	if err := e.Server.Start(); err != nil {
		return nil, fmt.Errorf("server.Start: %w", err)
	}
	e.acceptWG.Add(1)
	go e.acceptLoop()
	return e, nil
}

// muxServer is apis/server's mieruServer with the mux exposed.
type muxServer struct {
	mux     *protocol.Mux
	running atomic.Bool
	banner  []byte
}

func newMuxServer(cfg *pb.ServerConfig, slf *simnet.StreamNet, plf simnet.ServerFactory) (*muxServer, error) {
	ms := &muxServer{mux: protocol.NewMux(false)}
	ms.mux.SetStreamListenerFactory(slf)
	ms.mux.SetPacketListenerFactory(plf)
	tp, err := trafficpattern.NewConfig(cfg.TrafficPattern)
	if err != nil {
		return nil, err
	}
	ms.mux.SetTrafficPattern(tp).
		SetServerUsers(appctlcommon.UserListToMap(cfg.GetUsers())).
		SetServerUserHintIsMandatory(cfg.GetAdvancedSettings().GetUserHintIsMandatory())
	mtu := common.DefaultMTU
	if cfg.GetMtu() != 0 {
		mtu = int(cfg.GetMtu())
	}
	endpoints, err := appctlcommon.PortBindingsToUnderlayProperties(cfg.GetPortBindings(), mtu)
	if err != nil {
		return nil, err
	}
	ms.mux.SetEndpoints(endpoints)
	if err := ms.mux.Start(); err != nil {
		return nil, err
	}
	ms.running.Store(true)
	return ms, nil
}

func (ms *muxServer) Load() (*server.ServerConfig, error) { return nil, server.ErrNoServerConfig }
func (ms *muxServer) Store(*server.ServerConfig) error    { return server.ErrStoreServerConfigAfterStart }
func (ms *muxServer) Start() error                        { return nil }
func (ms *muxServer) IsRunning() bool                     { return ms.running.Load() }
func (ms *muxServer) Stop() error {
	ms.running.Store(false)
	return ms.mux.Close()
}
func (ms *muxServer) Accept() (net.Conn, *model.Request, error) {
	conn, err := ms.mux.Accept()
	if err != nil {
		return nil, nil, err
	}
	if len(ms.banner) > 0 {
		if _, err := conn.Write(append([]byte(nil), ms.banner...)); err != nil {
			return nil, nil, err
		}
	}
	common.SetReadTimeout(conn, 10*time.Second)
	defer common.SetReadTimeout(conn, 0)
	req := &model.Request{}
	if err := req.ReadFromSocks5(conn); err != nil {
		return nil, nil, err
	}
	return conn, req, nil
}

// ReloadUsers replaces the server's user list while it runs (what the
// management RPC "reload" does with a changed configuration). Only with
// Cfg.ServerMux. It returns when the reload has completed.
func (e *Env) ReloadUsers(users []UserSpec) {
	var list []*pb.User
	for _, u := range users {
		list = append(list, &pb.User{Name: proto.String(u.Name), Password: proto.String(u.Password)})
	}
	e.SrvMux.SetServerUsers(appctlcommon.UserListToMap(list))
}

// ReloadUsersProto is ReloadUsers with full user messages (quotas, grants).
func (e *Env) ReloadUsersProto(list []*pb.User) {
	e.SrvMux.SetServerUsers(appctlcommon.UserListToMap(list))
}

// StartClient starts the client half of the environment.
func (e *Env) StartClient() error {
	if e.Cfg.RawClient {
		mux, err := appctlcommon.NewClientMuxFromProfile(e.Cfg.ClientProfileProto(), e.SNet, simnet.ClientDialer{N: e.PNet}, nil, nil)
		if err != nil {
			return fmt.Errorf("NewClientMuxFromProfile: %w", err)
		}
		e.RawMux = mux
		return nil
	}
	e.Client = client.NewClient()
	if err := e.Client.Store(&client.ClientConfig{
		Profile:      e.Cfg.ClientProfileProto(),
		Dialer:       e.SNet,
		PacketDialer: simnet.ClientDialer{N: e.PNet},
	}); err != nil {
		return fmt.Errorf("client.Store: %w", err)
	}
	if err := e.Client.Start(); err != nil {
		return fmt.Errorf("client.Start: %w", err)
	}
	return nil
}

// Start starts a server and a client.
func Start(cfg Config, sn *simnet.StreamNet, pn *simnet.PacketNet) (*Env, error) {
	e, err := StartServer(cfg, sn, pn)
	if err != nil {
		return nil, err
	}
	if err := e.StartClient(); err != nil {
		e.Stop()
		return nil, err
	}
	return e, nil
}

// Stop stops client and server. It returns how long each Stop took.
func (e *Env) Stop() (clientStop, serverStop time.Duration) {
	e.mu.Lock()
	e.stopped = true
	e.paused = false
	if e.gate != nil {
		e.gate.Broadcast()
	}
	e.mu.Unlock()
	if e.Client != nil {
		t := time.Now()
		e.Client.Stop()
		clientStop = time.Since(t)
	}
	if e.RawMux != nil {
		t := time.Now()
		e.RawMux.Close()
		clientStop = time.Since(t)
	}
	if e.Server != nil {
		t := time.Now()
		e.Server.Stop()
		serverStop = time.Since(t)
	}
	e.acceptWG.Wait()
	return
}

// StopClient stops the client half only (apis/client or the raw mux).
func (e *Env) StopClient() {
	if e.Client != nil {
		e.Client.Stop()
	}
	if e.RawMux != nil {
		e.RawMux.Close()
	}
}

// StopBounded stops client and server but does not wait longer than max for
// either of them: checks whose subject is not shutdown use it so that a slow
// Stop (see C15) does not dominate their run time. It reports whether both
// completed in time; a Stop still running continues in the background.
func (e *Env) StopBounded(max time.Duration) (inTime bool) {
	done := make(chan struct{})
	go func() {
		e.Stop()
		close(done)
	}()
	select {
	case <-done:
		return true
	case <-time.After(max):
		return false
	}
}

func (e *Env) isStopped() bool {
	e.mu.Lock()
	defer e.mu.Unlock()
	return e.stopped
}

// Accepts returns how many proxy connections Server.Accept has delivered.
func (e *Env) Accepts() int {
	e.mu.Lock()
	defer e.mu.Unlock()
	return e.accepts
}

// Unknown returns accepted connections that no Open call was waiting for.
func (e *Env) Unknown() []*ServerConn {
	e.mu.Lock()
	defer e.mu.Unlock()
	return append([]*ServerConn(nil), e.unknown...)
}

func (e *Env) chanFor(idx int) chan *ServerConn {
	e.mu.Lock()
	defer e.mu.Unlock()
	ch, ok := e.srvConns[idx]
	if !ok {
		ch = make(chan *ServerConn, 4)
		e.srvConns[idx] = ch
	}
	return ch
}

// PauseAccept makes the server application stop (or resume) taking new proxy
// connections with Accept: a busy accept loop. Connections that clients open
// meanwhile wait inside mieru. Stop resumes it so that the loop can end.
func (e *Env) PauseAccept(on bool) {
	e.mu.Lock()
	if e.gate == nil {
		e.gate = sync.NewCond(&e.mu)
	}
	e.paused = on
	e.gate.Broadcast()
	e.mu.Unlock()
}

func (e *Env) acceptLoop() {
	defer e.acceptWG.Done()
	for {
		e.mu.Lock()
		for e.paused && !e.stopped {
			e.gate.Wait()
		}
		e.mu.Unlock()
		conn, req, err := e.Server.Accept()
		if err != nil {
			if e.isStopped() || !e.Server.IsRunning() {
				return
			}
			// A single bad connection (e.g. request not read in time): keep serving.
			if conn == nil {
				// Mux-level errors come back immediately; avoid a hot loop.
				time.Sleep(time.Millisecond)
			}
			continue
		}
		e.mu.Lock()
		e.accepts++
		e.mu.Unlock()
		go e.serve(conn, req)
	}
}

type userContext interface{ UserName() string }

func (e *Env) serve(conn net.Conn, req *model.Request) {
	sc := &ServerConn{Conn: conn, Req: req}
	if uc, ok := conn.(userContext); ok {
		sc.User = uc.UserName()
	}
	resp := &model.Response{Reply: 0, BindAddr: model.AddrSpec{IP: net.IPv4zero, Port: 0}}
	if err := resp.WriteToSocks5(conn); err != nil {
		conn.Close()
		return
	}
	idx := -1
	if strings.HasPrefix(req.DstAddr.FQDN, "s") && strings.HasSuffix(req.DstAddr.FQDN, ".test") {
		if v, err := strconv.Atoi(strings.TrimSuffix(strings.TrimPrefix(req.DstAddr.FQDN, "s"), ".test")); err == nil {
			idx = v
		}
	}
	if idx < 0 {
		e.mu.Lock()
		e.unknown = append(e.unknown, sc)
		e.mu.Unlock()
		return
	}
	e.chanFor(idx) <- sc
}

// DestAddr is the destination a client dials for session idx.
func DestAddr(idx int) net.Addr {
	return model.NetAddrSpec{AddrSpec: model.AddrSpec{FQDN: fmt.Sprintf("s%d.test", idx), Port: 80}, Net: "tcp"}
}

// Socks5RequestLen is the length of the SOCKS5 request the client sends for
// session idx (ver, cmd, rsv, atyp, len, name, port).
func Socks5RequestLen(idx int) int {
	return 4 + 1 + len(fmt.Sprintf("s%d.test", idx)) + 2
}

// Dial opens the client side of session idx. In STANDARD mode this completes
// the handshake; in NO_WAIT mode the handshake happens on the first Write.
func (e *Env) Dial(ctx context.Context, idx int) (net.Conn, error) {
	if e.RawMux != nil {
		conn, err := e.RawMux.DialContext(ctx)
		if err != nil {
			return nil, err
		}
		name := fmt.Sprintf("s%d.test", idx)
		req := append([]byte{5, 1, 0, 3, byte(len(name))}, name...)
		return &rawConn{Conn: conn, req: append(req, 0, 80), skip: 10}, nil
	}
	return e.Client.DialContext(ctx, DestAddr(idx))
}

// rawConn is an application that uses a session directly. It sends the
// SOCKS5 request with its first Write and drops the 10-byte SOCKS5 response
// from what it reads. Like io.Copy it re-uses its write buffer: the buffer is
// overwritten as soon as Write returns (net.Conn: Write must not retain p).
type rawConn struct {
	net.Conn
	wmu  sync.Mutex
	rmu  sync.Mutex
	req  []byte
	skip int
	buf  []byte
	gen  int
	dmu  sync.Mutex
	rdl  time.Time
}

// mieru's Session forgets its read deadline after one Read call (see C15);
// the wrapper issues two calls for the first Read, so it re-arms the deadline
// the application asked for before each of them.
func (c *rawConn) SetReadDeadline(t time.Time) error {
	c.dmu.Lock()
	c.rdl = t
	c.dmu.Unlock()
	return c.Conn.SetReadDeadline(t)
}

func (c *rawConn) SetDeadline(t time.Time) error {
	c.dmu.Lock()
	c.rdl = t
	c.dmu.Unlock()
	return c.Conn.SetDeadline(t)
}

func (c *rawConn) rearm() {
	c.dmu.Lock()
	t := c.rdl
	c.dmu.Unlock()
	if !t.IsZero() {
		c.Conn.SetReadDeadline(t)
	}
}

func (c *rawConn) Write(p []byte) (int, error) {
	c.wmu.Lock()
	defer c.wmu.Unlock()
	c.gen++
	gen := c.gen
	// like io.Copy, every write goes through one buffer owned by the caller,
	// which is filled again by the next write - or, when no further write
	// follows, overwritten 20 ms later (long after Write returned, long before
	// any retransmission timer)
	defer time.AfterFunc(20*time.Millisecond, func() {
		c.wmu.Lock()
		if c.gen == gen {
			for i := range c.buf {
				c.buf[i] = 0x5A
			}
		}
		c.wmu.Unlock()
	})
	if c.req == nil {
		c.buf = append(c.buf[:0], p...)
		return c.Conn.Write(c.buf)
	}
	// first write: request and the first application bytes in one buffer
	k := len(p)
	if k > 1024-len(c.req) {
		k = 1024 - len(c.req)
	}
	first := append(append([]byte(nil), c.req...), p[:k]...)
	c.buf = append(c.buf[:0], first...)
	nreq := len(c.req)
	n, err := c.Conn.Write(c.buf)
	if err != nil {
		if n > nreq {
			return n - nreq, err
		}
		return 0, err
	}
	c.req = nil
	if k < len(p) {
		// the rest goes through a second buffer so that the first one stays
		// untouched until the next write
		rest := append([]byte(nil), p[k:]...)
		m, err := c.Conn.Write(rest)
		for i := range rest {
			rest[i] = 0x5A
		}
		return k + m, err
	}
	return k, nil
}

func (c *rawConn) Read(p []byte) (int, error) {
	c.rmu.Lock()
	defer c.rmu.Unlock()
	for c.skip > 0 {
		tmp := make([]byte, c.skip)
		n, err := c.Conn.Read(tmp)
		c.skip -= n
		if err != nil {
			return 0, err
		}
		c.rearm()
	}
	return c.Conn.Read(p)
}

// ServerSide waits for the server side of session idx.
func (e *Env) ServerSide(idx int, timeout time.Duration) (*ServerConn, error) {
	select {
	case sc := <-e.chanFor(idx):
		return sc, nil
	case <-time.After(timeout):
		return nil, errors.New("timeout waiting for the server side of the session")
	}
}
