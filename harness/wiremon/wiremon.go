// Package wiremon is the C13 wire monitor: over the totally ordered
// send/deliver log of the simulated datagram network it checks that no
// cumulative acknowledgement runs ahead of what was delivered to its sender,
// that every retransmission of a sequence number equals its first
// transmission, and that first transmissions carry 0,1,2,... without gaps.
package wiremon

import (
	"bytes"
	"fmt"

	"verif/harness/e2e"
	"verif/harness/refproto"
	"verif/harness/simnet"
)

type stream struct {
	endpoint string // sender address
	sid      uint32
}

type firstTx struct {
	proto   uint8
	frag    uint8
	payload []byte
	leLen   uint16
}

func isSeqBearing(p uint8) bool {
	return p == refproto.OpenSessionRequest || p == refproto.OpenSessionResponse || refproto.IsData(p)
}

// Stats says what the monitor saw.
type Stats struct {
	Retrans, GapAcks, Acks int
}

// Check returns the signature and description of the first violation ("" if none).
func Check(events []simnet.Event, dgrams []*e2e.DecodedDatagram) (sig, msg string, st Stats) {
	fail := func(s, format string, a ...any) (string, string, Stats) {
		return s, fmt.Sprintf(format, a...), st
	}
	byIdx := map[int]*e2e.DecodedDatagram{}
	for _, d := range dgrams {
		byIdx[d.D.Idx] = d
	}
	// delivered[receiver endpoint][session] = set of peer sequence numbers handed to the endpoint
	delivered := map[stream]map[uint32]bool{}
	first := map[stream]map[uint32]*firstTx{}
	nextFirst := map[stream]uint32{}
	for _, ev := range events {
		d := byIdx[ev.Idx]
		if d == nil || d.Seg == nil {
			continue
		}
		m := d.Seg.Meta
		switch ev.Kind {
		case simnet.EvDeliver:
			if isSeqBearing(m.Proto) {
				k := stream{ev.To, m.SessionID}
				if delivered[k] == nil {
					delivered[k] = map[uint32]bool{}
				}
				delivered[k][m.Seq] = true
			}
		case simnet.EvSend:
			sender := d.D.From.String()
			k := stream{sender, m.SessionID}
			where := fmt.Sprintf("datagram %d from %s %s", d.D.Idx, sender, e2e.DescribeSeg(d.Seg))
			// (1) cumulative ack never ahead of receipt
			if refproto.IsDataAck(m.Proto) {
				st.Acks++
				got := delivered[k]
				gap := false
				for s := uint32(0); s < m.UnAck; s++ {
					if !got[s] {
						return fail("ack-ahead", "%s acknowledges everything below %d, but sequence number %d of session %d was never delivered to it", where, m.UnAck, s, m.SessionID)
					}
				}
				for s := range got {
					if s > m.UnAck {
						gap = true
					}
				}
				if gap {
					st.GapAcks++
				}
			}
			// (2) retransmissions identical; (3) sequence numbers dense from zero
			if isSeqBearing(m.Proto) {
				if first[k] == nil {
					first[k] = map[uint32]*firstTx{}
				}
				if f, ok := first[k][m.Seq]; ok {
					st.Retrans++
					if f.proto != m.Proto || f.frag != m.Fragment || !bytes.Equal(f.payload, d.Seg.Payload) || f.leLen != m.LEExtracted {
						return fail("retrans-differs", "%s: retransmission of sequence number %d differs from its first transmission (type %d->%d, fragment %d->%d, payload %d->%d bytes, equal=%v)",
							where, m.Seq, f.proto, m.Proto, f.frag, m.Fragment, len(f.payload), len(d.Seg.Payload), bytes.Equal(f.payload, d.Seg.Payload))
					}
				} else {
					if m.Seq != nextFirst[k] {
						return fail("seq-order", "%s: first transmission carries sequence number %d, expected %d (numbers are assigned from zero without gaps)", where, m.Seq, nextFirst[k])
					}
					nextFirst[k] = m.Seq + 1
					first[k][m.Seq] = &firstTx{proto: m.Proto, frag: m.Fragment, payload: d.Seg.Payload, leLen: m.LEExtracted}
				}
			}
		}
	}
	return "", "", st
}
