package simnet

import (
	"container/heap"
	"context"
	"fmt"
	"net"
	"sync"
	"time"
)

// Fate is what the network does with one datagram.
type Fate struct {
	Drop    bool
	Dup     int           // extra copies delivered (each after DupGap more)
	Delay   time.Duration // delivery delay (0 = immediately)
	Reflect bool          // additionally deliver a copy to the sender, as if it came from the addressee
	DupGap  time.Duration
	Replace []byte // if non-nil, deliver these bytes instead (tampering)
	Note    string // free text recorded with the event
}

// Datagram is one recorded transmission.
type Datagram struct {
	Idx      int
	From, To *net.UDPAddr
	Data     []byte
	At       time.Duration // since the network was created
	Fate     Fate
}

// EventKind distinguishes send and deliver events in the network log.
type EventKind uint8

const (
	EvSend EventKind = iota
	EvDeliver
)

// Event is one entry of the totally ordered network log. Send events are
// logged when WriteTo is called; deliver events when ReadFrom hands the
// datagram to the endpoint. Both happen under the network lock, so the order
// of the log is a valid linearisation.
type Event struct {
	Kind EventKind
	Idx  int // datagram index
	At   time.Duration
	To   string
}

// FaultFunc decides the fate of a datagram. It is called under the network
// lock in send order, so it may keep state without locking.
type FaultFunc func(d *Datagram) Fate

type queued struct {
	data []byte
	from *net.UDPAddr
	idx  int
}

// PacketNet is an in-memory UDP-like network.
type PacketNet struct {
	mu        sync.Mutex
	start     time.Time
	endpoints map[string]*PacketConn
	dgrams    []*Datagram
	events    []Event
	fault     FaultFunc
	blackhole bool
	sendErr   error
	nextPort  int
	overflow  int
	// ClientIP is the source IP given to client sockets.
	ClientIP net.IP
	// ServerIP replaces an unspecified bind address (mieru binds the wildcard).
	ServerIP net.IP
	QueueCap int
	// Latency is a one-way delay added to every datagram. Datagrams with equal
	// total delay are delivered in the order they were sent (see schedule).
	Latency time.Duration

	pending  delayHeap
	pendSeq  uint64
	pendRun  bool
	pendWake chan struct{}
}

// delayed deliveries are executed by one goroutine in (due time, submission)
// order, so that a uniform latency keeps the network FIFO; time.AfterFunc
// would let equal-delay datagrams overtake each other.
type delayedItem struct {
	due time.Time
	seq uint64
	fn  func()
}

type delayHeap []delayedItem

func (h delayHeap) Len() int { return len(h) }
func (h delayHeap) Less(i, j int) bool {
	if h[i].due.Equal(h[j].due) {
		return h[i].seq < h[j].seq
	}
	return h[i].due.Before(h[j].due)
}
func (h delayHeap) Swap(i, j int) { h[i], h[j] = h[j], h[i] }
func (h *delayHeap) Push(x any)   { *h = append(*h, x.(delayedItem)) }
func (h *delayHeap) Pop() any {
	old := *h
	it := old[len(old)-1]
	*h = old[:len(old)-1]
	return it
}

// scheduleLocked runs fn (with n.mu held) once `delay` has passed. Caller holds n.mu.
func (n *PacketNet) scheduleLocked(delay time.Duration, fn func()) {
	n.pendSeq++
	heap.Push(&n.pending, delayedItem{due: time.Now().Add(delay), seq: n.pendSeq, fn: fn})
	if n.pendWake == nil {
		n.pendWake = make(chan struct{}, 1)
	}
	if !n.pendRun {
		n.pendRun = true
		go n.runPending()
	} else {
		select {
		case n.pendWake <- struct{}{}:
		default:
		}
	}
}

func (n *PacketNet) runPending() {
	for {
		n.mu.Lock()
		for n.pending.Len() > 0 && !time.Now().Before(n.pending[0].due) {
			it := heap.Pop(&n.pending).(delayedItem)
			it.fn()
		}
		if n.pending.Len() == 0 {
			n.pendRun = false
			n.mu.Unlock()
			return
		}
		wait := time.Until(n.pending[0].due)
		n.mu.Unlock()
		t := time.NewTimer(wait)
		select {
		case <-t.C:
		case <-n.pendWake:
			t.Stop()
		}
	}
}

func NewPacketNet() *PacketNet {
	return &PacketNet{start: time.Now(), endpoints: map[string]*PacketConn{}, nextPort: 50000, ClientIP: net.IPv4(10, 0, 0, 2), ServerIP: net.IPv4(10, 0, 0, 1), QueueCap: 16384}
}

// SetFault installs the fault function (nil = perfect network).
func (n *PacketNet) SetFault(f FaultFunc) {
	n.mu.Lock()
	n.fault = f
	n.mu.Unlock()
}

// SetSendError makes every WriteTo fail with err (nil = back to normal): the
// host lost its route or interface (ENETUNREACH, ENOBUFS, EPERM ...).
func (n *PacketNet) SetSendError(err error) {
	n.mu.Lock()
	n.sendErr = err
	n.mu.Unlock()
}

// SetBlackhole makes the network silently drop everything.
func (n *PacketNet) SetBlackhole(b bool) {
	n.mu.Lock()
	n.blackhole = b
	n.mu.Unlock()
}

// Snapshot returns copies of the datagram record and the event log.
func (n *PacketNet) Snapshot() ([]*Datagram, []Event) {
	n.mu.Lock()
	defer n.mu.Unlock()
	return append([]*Datagram(nil), n.dgrams...), append([]Event(nil), n.events...)
}

// Overflow reports how many datagrams were lost because a receive queue was full.
func (n *PacketNet) Overflow() int {
	n.mu.Lock()
	defer n.mu.Unlock()
	return n.overflow
}

// Now returns the time since the network was created.
func (n *PacketNet) Now() time.Duration { return time.Since(n.start) }

// PacketConn implements net.PacketConn on a PacketNet.
type PacketConn struct {
	net    *PacketNet
	addr   *net.UDPAddr
	cond   *sync.Cond // on net.mu
	q      []queued
	closed bool
	rdl    time.Time
	wdl    time.Time // write deadline: like a kernel socket, WriteTo fails once it has passed
	timer  *time.Timer
}

var _ net.PacketConn = (*PacketConn)(nil)

func (n *PacketNet) bind(addr *net.UDPAddr) (*PacketConn, error) {
	n.mu.Lock()
	defer n.mu.Unlock()
	if addr.IP == nil || addr.IP.IsUnspecified() {
		addr = &net.UDPAddr{IP: n.ServerIP, Port: addr.Port}
	}
	if addr.Port == 0 {
		n.nextPort++
		addr = &net.UDPAddr{IP: addr.IP, Port: n.nextPort}
	}
	key := addr.String()
	if _, ok := n.endpoints[key]; ok {
		return nil, fmt.Errorf("simnet: address %s already in use", key)
	}
	c := &PacketConn{net: n, addr: addr}
	c.cond = sync.NewCond(&n.mu)
	n.endpoints[key] = c
	return c, nil
}

// Bind creates a socket on the given address (port 0 = ephemeral).
func (n *PacketNet) Bind(ip net.IP, port int) (*PacketConn, error) {
	return n.bind(&net.UDPAddr{IP: ip, Port: port})
}

// ServerFactory adapts the network to apicommon.PacketListenerFactory.
type ServerFactory struct{ N *PacketNet }

func (f ServerFactory) ListenPacket(ctx context.Context, network, address string) (net.PacketConn, error) {
	addr, err := net.ResolveUDPAddr("udp", address)
	if err != nil {
		return nil, err
	}
	return f.N.bind(addr)
}

// ClientDialer adapts the network to apicommon.PacketDialer.
type ClientDialer struct{ N *PacketNet }

func (d ClientDialer) ListenPacket(ctx context.Context, network, laddr, raddr string) (net.PacketConn, error) {
	d.N.mu.Lock()
	ip := append(net.IP(nil), d.N.ClientIP...)
	d.N.mu.Unlock()
	return d.N.bind(&net.UDPAddr{IP: ip, Port: 0})
}

func (c *PacketConn) LocalAddr() net.Addr { return c.addr }

func (c *PacketConn) Close() error {
	c.net.mu.Lock()
	if !c.closed {
		c.closed = true
		delete(c.net.endpoints, c.addr.String())
	}
	c.cond.Broadcast()
	c.net.mu.Unlock()
	return nil
}

func (c *PacketConn) wake() {
	c.net.mu.Lock()
	c.cond.Broadcast()
	c.net.mu.Unlock()
}

func (c *PacketConn) SetReadDeadline(t time.Time) error {
	c.net.mu.Lock()
	c.rdl = t
	if c.timer != nil {
		c.timer.Stop()
		c.timer = nil
	}
	if !t.IsZero() {
		if d := time.Until(t); d > 0 {
			c.timer = time.AfterFunc(d, c.wake)
		}
	}
	c.cond.Broadcast()
	c.net.mu.Unlock()
	return nil
}

func (c *PacketConn) SetDeadline(t time.Time) error {
	c.SetWriteDeadline(t)
	return c.SetReadDeadline(t)
}

// SetWriteDeadline: a datagram write never blocks here, but as on a real UDP
// socket a write issued after the deadline has passed fails with a timeout.
func (c *PacketConn) SetWriteDeadline(t time.Time) error {
	c.net.mu.Lock()
	c.wdl = t
	c.net.mu.Unlock()
	return nil
}

func (c *PacketConn) ReadFrom(p []byte) (int, net.Addr, error) {
	n := c.net
	n.mu.Lock()
	defer n.mu.Unlock()
	for {
		if c.closed {
			return 0, nil, net.ErrClosed
		}
		if len(c.q) > 0 {
			d := c.q[0]
			c.q = c.q[1:]
			k := copy(p, d.data)
			n.events = append(n.events, Event{Kind: EvDeliver, Idx: d.idx, At: time.Since(n.start), To: c.addr.String()})
			return k, d.from, nil
		}
		if !c.rdl.IsZero() && !time.Now().Before(c.rdl) {
			return 0, nil, ErrTimeout
		}
		c.cond.Wait()
	}
}

func (c *PacketConn) WriteTo(p []byte, addr net.Addr) (int, error) {
	ua, ok := addr.(*net.UDPAddr)
	if !ok {
		var err error
		ua, err = net.ResolveUDPAddr("udp", addr.String())
		if err != nil {
			return 0, err
		}
	}
	n := c.net
	n.mu.Lock()
	if c.closed {
		n.mu.Unlock()
		return 0, net.ErrClosed
	}
	if !c.wdl.IsZero() && !time.Now().Before(c.wdl) {
		n.mu.Unlock()
		return 0, ErrTimeout
	}
	if n.sendErr != nil {
		err := n.sendErr
		n.mu.Unlock()
		return 0, err
	}
	d := &Datagram{Idx: len(n.dgrams), From: c.addr, To: ua, Data: append([]byte(nil), p...), At: time.Since(n.start)}
	n.dgrams = append(n.dgrams, d)
	n.events = append(n.events, Event{Kind: EvSend, Idx: d.Idx, At: d.At, To: ua.String()})
	var fate Fate
	if n.blackhole {
		fate = Fate{Drop: true, Note: "blackhole"}
	} else if n.fault != nil {
		fate = n.fault(d)
	}
	d.Fate = fate
	if !fate.Drop {
		data := d.Data
		if fate.Replace != nil {
			data = fate.Replace
		}
		if fate.Reflect {
			if _, ok := n.endpoints[c.addr.String()]; ok {
				n.enqueueLocked(c.addr, d.Data, ua, d.Idx)
			}
		}
		copies := 1 + fate.Dup
		for i := 0; i < copies; i++ {
			delay := fate.Delay + time.Duration(i)*fate.DupGap
			if delay <= 0 {
				n.enqueueLocked(ua, data, c.addr, d.Idx)
			} else {
				dd, to, from, idx := data, ua, c.addr, d.Idx
				time.AfterFunc(delay, func() {
					n.mu.Lock()
					n.enqueueLocked(to, dd, from, idx)
					n.mu.Unlock()
				})
			}
		}
	}
	n.mu.Unlock()
	return len(p), nil
}

func (n *PacketNet) enqueueLocked(to *net.UDPAddr, data []byte, from *net.UDPAddr, idx int) {
	dst, ok := n.endpoints[to.String()]
	if !ok || dst.closed {
		return
	}
	if len(dst.q) >= n.QueueCap {
		n.overflow++
		return
	}
	dst.q = append(dst.q, queued{data: data, from: from, idx: idx})
	dst.cond.Broadcast()
}

// Inject delivers raw bytes to an endpoint as if they came from `from`.
// The datagram is recorded like any other.
func (n *PacketNet) Inject(from, to *net.UDPAddr, data []byte) {
	n.mu.Lock()
	d := &Datagram{Idx: len(n.dgrams), From: from, To: to, Data: append([]byte(nil), data...), At: time.Since(n.start), Fate: Fate{Note: "injected"}}
	n.dgrams = append(n.dgrams, d)
	n.events = append(n.events, Event{Kind: EvSend, Idx: d.Idx, At: d.At, To: to.String()})
	n.enqueueLocked(to, d.Data, from, d.Idx)
	n.mu.Unlock()
}
