package simnet

import (
	"net"
	"testing"
	"time"
)

func TestReflectAndLatencyFIFO(t *testing.T) {
	n := NewPacketNet()
	a, _ := n.Bind(net.IPv4(10, 0, 0, 2), 1)
	b, _ := n.Bind(net.IPv4(10, 0, 0, 1), 2)
	n.SetFault(func(d *Datagram) Fate { return Fate{Reflect: d.Data[0] == 'r'} })
	a.WriteTo([]byte("r1"), b.LocalAddr())
	buf := make([]byte, 10)
	a.SetReadDeadline(time.Now().Add(time.Second))
	k, from, err := a.ReadFrom(buf)
	if err != nil || string(buf[:k]) != "r1" || from.String() != b.LocalAddr().String() {
		t.Fatalf("reflected datagram: %q from %v err %v", buf[:k], from, err)
	}
	n.SetFault(nil)
	n.Latency = 5 * time.Millisecond
	for i := 0; i < 200; i++ {
		a.WriteTo([]byte{byte(i)}, b.LocalAddr())
	}
	b.SetReadDeadline(time.Now().Add(time.Second))
	b.ReadFrom(buf) // r1
	for i := 0; i < 200; i++ {
		k, _, err := b.ReadFrom(buf)
		if err != nil || k != 1 || buf[0] != byte(i) {
			t.Fatalf("datagram %d: got %v err %v", i, buf[:k], err)
		}
	}
}
