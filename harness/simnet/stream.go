// Package simnet is an in-process network owned by the harness: stream links
// with generated chunking, bounded buffers, correct deadline semantics and an
// optional middlebox; and a datagram network with a fault plan and a complete
// record of what was sent. mieru accepts custom dialers and listener
// factories through apis/client and apis/server, so real endpoints run on it
// without any source change.
package simnet

import (
	"context"
	"errors"
	"fmt"
	"io"
	"net"
	"os"
	"sync"
	"sync/atomic"
	"time"
)

// timeoutError implements net.Error with Timeout()==true and unwraps to
// os.ErrDeadlineExceeded like the standard library's deadline errors.
type timeoutError struct{}

func (timeoutError) Error() string   { return "simnet: i/o timeout" }
func (timeoutError) Timeout() bool   { return true }
func (timeoutError) Temporary() bool { return true }
func (timeoutError) Unwrap() error   { return os.ErrDeadlineExceeded }

var (
	ErrTimeout net.Error = timeoutError{}
	ErrReset             = errors.New("simnet: connection reset by peer")
)

// StreamFilter is a middlebox on one direction of a stream link. Filter
// receives each write (already recorded as what the sender emitted) and
// returns the bytes that are actually put on the wire towards the receiver.
// It may buffer. Close is called when the sender closes; what it returns is
// delivered before EOF.
type StreamFilter interface {
	Filter(p []byte) []byte
	Close() []byte
}

// WriteRec records one Write call of an endpoint.
type WriteRec struct {
	Off int64 // stream offset of the first byte
	Len int
}

// half is one direction of a stream link.
type half struct {
	mu       sync.Mutex
	cond     *sync.Cond
	buf      []byte
	capacity int
	frozen   bool // the network stopped delivering: reads block although data is buffered
	wclosed  bool // writer closed its end: reader sees EOF after draining
	rclosed  bool // reader closed its end: writer sees an error
	reset    bool

	rdl, wdl           time.Time
	rdlTimer, wdlTimer *time.Timer

	chunks   []int // read chunk plan, cyclic; 0 or empty = unlimited
	chunkIdx int

	filter StreamFilter

	// record
	sent     []byte // everything the writer emitted (pre-filter), if recording
	keepSent bool
	writes   []WriteRec
	nSent    int64
	nRead    int64
}

func newHalf(capacity int, chunks []int, keep bool) *half {
	h := &half{capacity: capacity, chunks: chunks, keepSent: keep}
	h.cond = sync.NewCond(&h.mu)
	return h
}

func (h *half) wake() {
	h.mu.Lock()
	h.cond.Broadcast()
	h.mu.Unlock()
}

func (h *half) setReadDeadline(t time.Time) {
	h.mu.Lock()
	h.rdl = t
	if h.rdlTimer != nil {
		h.rdlTimer.Stop()
		h.rdlTimer = nil
	}
	if !t.IsZero() {
		if d := time.Until(t); d > 0 {
			h.rdlTimer = time.AfterFunc(d, h.wake)
		}
	}
	h.cond.Broadcast()
	h.mu.Unlock()
}

func (h *half) setWriteDeadline(t time.Time) {
	h.mu.Lock()
	h.wdl = t
	if h.wdlTimer != nil {
		h.wdlTimer.Stop()
		h.wdlTimer = nil
	}
	if !t.IsZero() {
		if d := time.Until(t); d > 0 {
			h.wdlTimer = time.AfterFunc(d, h.wake)
		}
	}
	h.cond.Broadcast()
	h.mu.Unlock()
}

func (h *half) read(p []byte) (int, error) {
	h.mu.Lock()
	defer h.mu.Unlock()
	for {
		if h.rclosed {
			return 0, net.ErrClosed
		}
		if h.reset {
			return 0, ErrReset
		}
		if len(p) == 0 {
			return 0, nil
		}
		if len(h.buf) > 0 && !h.frozen {
			n := len(p)
			if n > len(h.buf) {
				n = len(h.buf)
			}
			if len(h.chunks) > 0 {
				c := h.chunks[h.chunkIdx%len(h.chunks)]
				h.chunkIdx++
				if c > 0 && n > c {
					n = c
				}
			}
			copy(p, h.buf[:n])
			h.buf = h.buf[n:]
			if len(h.buf) == 0 {
				h.buf = nil
			}
			h.nRead += int64(n)
			h.cond.Broadcast()
			return n, nil
		}
		if h.wclosed && !h.frozen {
			return 0, io.EOF
		}
		if !h.rdl.IsZero() && !time.Now().Before(h.rdl) {
			return 0, ErrTimeout
		}
		h.cond.Wait()
	}
}

func (h *half) write(p []byte) (int, error) {
	h.mu.Lock()
	defer h.mu.Unlock()
	if h.wclosed {
		return 0, net.ErrClosed
	}
	if h.reset {
		return 0, ErrReset
	}
	// record what the sender emitted
	h.writes = append(h.writes, WriteRec{Off: h.nSent, Len: len(p)})
	h.nSent += int64(len(p))
	if h.keepSent {
		h.sent = append(h.sent, p...)
	}
	q := p
	if h.filter != nil {
		q = h.filter.Filter(append([]byte(nil), p...))
	}
	for len(q) > 0 {
		if h.reset {
			return 0, ErrReset
		}
		if h.wclosed {
			return 0, net.ErrClosed
		}
		if h.rclosed {
			// Receiver is gone; like a kernel, accept and discard for a while
			// and then report an error.
			return 0, ErrReset
		}
		if !h.wdl.IsZero() && !time.Now().Before(h.wdl) {
			return 0, ErrTimeout
		}
		space := h.capacity - len(h.buf)
		if space <= 0 {
			h.cond.Wait()
			continue
		}
		n := len(q)
		if n > space {
			n = space
		}
		h.buf = append(h.buf, q[:n]...)
		q = q[n:]
		h.cond.Broadcast()
	}
	return len(p), nil
}

func (h *half) closeWrite() {
	h.mu.Lock()
	if !h.wclosed {
		if h.filter != nil {
			if tail := h.filter.Close(); len(tail) > 0 {
				h.buf = append(h.buf, tail...)
			}
		}
		h.wclosed = true
	}
	h.cond.Broadcast()
	h.mu.Unlock()
}

func (h *half) closeRead() {
	h.mu.Lock()
	h.rclosed = true
	h.buf = nil
	h.cond.Broadcast()
	h.mu.Unlock()
}

func (h *half) doReset() {
	h.mu.Lock()
	h.reset = true
	h.buf = nil
	h.cond.Broadcast()
	h.mu.Unlock()
}

// Conn is one endpoint of a stream link.
type Conn struct {
	in, out       *half
	local, remote net.Addr
	closed        atomic.Bool
	link          *Link
}

var _ net.Conn = (*Conn)(nil)

func (c *Conn) Read(p []byte) (int, error)  { return c.in.read(p) }
func (c *Conn) Write(p []byte) (int, error) { return c.out.write(p) }
func (c *Conn) Close() error {
	if c.closed.Swap(true) {
		return nil
	}
	c.out.closeWrite()
	c.in.closeRead()
	return nil
}
func (c *Conn) LocalAddr() net.Addr  { return c.local }
func (c *Conn) RemoteAddr() net.Addr { return c.remote }
func (c *Conn) SetDeadline(t time.Time) error {
	c.in.setReadDeadline(t)
	c.out.setWriteDeadline(t)
	return nil
}
func (c *Conn) SetReadDeadline(t time.Time) error  { c.in.setReadDeadline(t); return nil }
func (c *Conn) SetWriteDeadline(t time.Time) error { c.out.setWriteDeadline(t); return nil }

// Link is one established stream connection (two directions).
type Link struct {
	ID         int
	C2S, S2C   *half
	Client     *Conn
	Server     *Conn
	ClientAddr *net.TCPAddr
}

// Freeze stops delivery in both directions without closing anything (a
// stalled path): buffered and future bytes stay in the network.
func (l *Link) Freeze(on bool) {
	for _, h := range []*half{l.C2S, l.S2C} {
		h.mu.Lock()
		h.frozen = on
		h.cond.Broadcast()
		h.mu.Unlock()
	}
}

// Reset aborts the link in both directions (TCP RST).
func (l *Link) Reset() {
	l.C2S.doReset()
	l.S2C.doReset()
}

// InjectC2S puts bytes on the wire towards the server as if the network
// delivered them now (e.g. bytes a middlebox held back); not recorded as sent.
func (l *Link) InjectC2S(p []byte) {
	h := l.C2S
	h.mu.Lock()
	h.buf = append(h.buf, p...)
	h.cond.Broadcast()
	h.mu.Unlock()
}

// ReadC2S reports how many bytes the server end has taken off the wire.
func (l *Link) ReadC2S() int64 {
	l.C2S.mu.Lock()
	defer l.C2S.mu.Unlock()
	return l.C2S.nRead
}

// SentC2S returns a copy of everything the client wrote (pre-filter).
func (l *Link) SentC2S() []byte { return l.C2S.snapshot() }

// SentS2C returns a copy of everything the server wrote (pre-filter).
func (l *Link) SentS2C() []byte { return l.S2C.snapshot() }

// WritesC2S returns the write-call boundaries of the client.
func (l *Link) WritesC2S() []WriteRec { return l.C2S.writeRecs() }

// WritesS2C returns the write-call boundaries of the server.
func (l *Link) WritesS2C() []WriteRec { return l.S2C.writeRecs() }

func (h *half) snapshot() []byte {
	h.mu.Lock()
	defer h.mu.Unlock()
	return append([]byte(nil), h.sent...)
}

func (h *half) writeRecs() []WriteRec {
	h.mu.Lock()
	defer h.mu.Unlock()
	return append([]WriteRec(nil), h.writes...)
}

// BytesSent returns the number of bytes written by the sender of this half.
func (h *half) BytesSent() int64 {
	h.mu.Lock()
	defer h.mu.Unlock()
	return h.nSent
}

// BytesC2S / BytesS2C report how many bytes each side has emitted so far.
func (l *Link) BytesC2S() int64 { return l.C2S.BytesSent() }
func (l *Link) BytesS2C() int64 { return l.S2C.BytesSent() }

// StreamOpts configures links created by a StreamNet.
type StreamOpts struct {
	BufC2S, BufS2C       int   // buffer capacity per direction (bytes); 0 = 1 MiB
	ChunksC2S, ChunksS2C []int // read chunk plans
	Record               bool  // keep a copy of all bytes emitted
	// NewFilter, if set, is called per link and direction (0 = c2s, 1 = s2c).
	NewFilter func(linkID int, dir int) StreamFilter
}

// StreamNet is an in-memory TCP-like network with one listener address space.
type StreamNet struct {
	mu        sync.Mutex
	listeners map[string]*Listener
	links     []*Link
	opts      StreamOpts
	nextPort  int
	// ClientIP is the source address used for dials, may be changed between dials.
	ClientIP net.IP
	// ServerIP replaces an unspecified listen address (mieru listens on the wildcard).
	ServerIP net.IP
}

func NewStreamNet(opts StreamOpts) *StreamNet {
	return &StreamNet{listeners: map[string]*Listener{}, opts: opts, nextPort: 40000, ClientIP: net.IPv4(10, 0, 0, 2), ServerIP: net.IPv4(10, 0, 0, 1)}
}

// SetOpts changes the options used for links dialled from now on.
func (n *StreamNet) SetOpts(opts StreamOpts) {
	n.mu.Lock()
	n.opts = opts
	n.mu.Unlock()
}

// Links returns all links created so far.
func (n *StreamNet) Links() []*Link {
	n.mu.Lock()
	defer n.mu.Unlock()
	return append([]*Link(nil), n.links...)
}

// Listener implements net.Listener.
type Listener struct {
	net    *StreamNet
	addr   *net.TCPAddr
	ch     chan *Conn
	closed chan struct{}
	once   sync.Once
}

func (l *Listener) Accept() (net.Conn, error) {
	select {
	case c := <-l.ch:
		return c, nil
	case <-l.closed:
		return nil, net.ErrClosed
	}
}

func (l *Listener) Close() error {
	l.once.Do(func() {
		close(l.closed)
		l.net.mu.Lock()
		delete(l.net.listeners, l.addr.String())
		l.net.mu.Unlock()
	})
	return nil
}

func (l *Listener) Addr() net.Addr { return l.addr }

// Listen implements apicommon.StreamListenerFactory.
func (n *StreamNet) Listen(ctx context.Context, network, address string) (net.Listener, error) {
	addr, err := net.ResolveTCPAddr("tcp", address)
	if err != nil {
		return nil, err
	}
	n.mu.Lock()
	defer n.mu.Unlock()
	if addr.IP == nil || addr.IP.IsUnspecified() {
		addr = &net.TCPAddr{IP: n.ServerIP, Port: addr.Port}
	}
	key := addr.String()
	if _, ok := n.listeners[key]; ok {
		return nil, fmt.Errorf("simnet: address %s already in use", key)
	}
	l := &Listener{net: n, addr: addr, ch: make(chan *Conn, 128), closed: make(chan struct{})}
	n.listeners[key] = l
	return l, nil
}

// DialContext implements apicommon.Dialer.
func (n *StreamNet) DialContext(ctx context.Context, network, address string) (net.Conn, error) {
	c, _, err := n.DialLink(address)
	return c, err
}

// DialLink dials and also returns the Link for inspection.
func (n *StreamNet) DialLink(address string) (*Conn, *Link, error) {
	return n.DialLinkFrom(address, nil)
}

// DialLinkFrom dials from the given source IP (nil = the network's ClientIP).
func (n *StreamNet) DialLinkFrom(address string, srcIP net.IP) (*Conn, *Link, error) {
	addr, err := net.ResolveTCPAddr("tcp", address)
	if err != nil {
		return nil, nil, err
	}
	n.mu.Lock()
	l, ok := n.listeners[addr.String()]
	if !ok {
		n.mu.Unlock()
		return nil, nil, fmt.Errorf("simnet: connection refused: %s", address)
	}
	opts := n.opts
	n.nextPort++
	if srcIP == nil {
		srcIP = n.ClientIP
	}
	caddr := &net.TCPAddr{IP: append(net.IP(nil), srcIP...), Port: n.nextPort}
	id := len(n.links)
	bc, bs := opts.BufC2S, opts.BufS2C
	if bc <= 0 {
		bc = 1 << 20
	}
	if bs <= 0 {
		bs = 1 << 20
	}
	c2s := newHalf(bc, opts.ChunksC2S, opts.Record)
	s2c := newHalf(bs, opts.ChunksS2C, opts.Record)
	if opts.NewFilter != nil {
		c2s.filter = opts.NewFilter(id, 0)
		s2c.filter = opts.NewFilter(id, 1)
	}
	link := &Link{ID: id, C2S: c2s, S2C: s2c, ClientAddr: caddr}
	link.Client = &Conn{in: s2c, out: c2s, local: caddr, remote: addr, link: link}
	link.Server = &Conn{in: c2s, out: s2c, local: addr, remote: caddr, link: link}
	n.links = append(n.links, link)
	n.mu.Unlock()
	select {
	case l.ch <- link.Server:
	case <-l.closed:
		return nil, nil, fmt.Errorf("simnet: connection refused: %s", address)
	}
	return link.Client, link, nil
}
