// C11 — with SOCKS5 credentials configured, nothing is proxied without them.
// See DESIGN.md section 3.11.
package c11

import (
	"context"
	"fmt"
	"io"
	"net"
	"sync"
	"testing"
	"time"

	pb "github.com/enfein/mieru/v3/pkg/appctl/appctlpb"
	"github.com/enfein/mieru/v3/pkg/socks5"
	"google.golang.org/protobuf/proto"
	"pgregory.net/rapid"

	"verif/harness/pbt"
	"verif/harness/simnet"
)

type Cred struct {
	User string `json:"user"`
	Pass string `json:"pass"`
}

type Case struct {
	Creds      []Cred `json:"creds"`                // configured credentials (may be empty)
	ClientSide bool   `json:"clientSide,omitempty"` // authentication placed at the proxy client (UseProxy)
	Methods    []int  `json:"methods"`
	SubVer     byte   `json:"subVer"`
	User       string `json:"supUser"`
	Pass       string `json:"supPass"`
	// TruncateAt >= 0 cuts the client's total output after that many bytes and closes.
	TruncateAt int `json:"truncateAt"`
}

var methodAlphabet = []int{0x00, 0x00, 0x02, 0x02, 0x01, 0x80, 0xFF}

func long(n int, c byte) string {
	b := make([]byte, n)
	for i := range b {
		b[i] = c
	}
	return string(b)
}

func swapCase(s string) string {
	b := []byte(s)
	for i, ch := range b {
		switch {
		case ch >= 'a' && ch <= 'z':
			b[i] = ch - 32
		case ch >= 'A' && ch <= 'Z':
			b[i] = ch + 32
		}
	}
	return string(b)
}

func genCase(t *rapid.T) Case {
	var c Case
	// configured credentials: ordinary pairs, pairs that are prefixes / rotations
	// of each other, pairs with an empty field (accepted by socks5.New; the daemon's
	// config validation refuses them) and pairs that are valid configuration but
	// cannot be presented at all (a field longer than 255 bytes)
	credPool := []Cred{{"u1", "p1"}, {"u2", "p2"}, {"user", "pass"}, {"u1x", "p1"}, {long(255, 'a'), long(255, 'b')},
		{"", ""}, {"u1", ""}, {"", "p1"}, {"alice", "secret"}, {"p1", "u1"}, {long(256, 'a'), "p"}, {"u", long(300, 'b')}, {"U1", "P1"}, {"u1\x00", "p1"}}
	switch rapid.IntRange(0, 4).Draw(t, "nCreds") {
	case 0:
	case 1, 2:
		c.Creds = []Cred{credPool[rapid.IntRange(0, len(credPool)-1).Draw(t, "cred0")]}
	case 3:
		c.Creds = []Cred{credPool[0], credPool[1], credPool[rapid.IntRange(2, len(credPool)-1).Draw(t, "cred2")]}
	default:
		n := rapid.IntRange(2, 5).Draw(t, "nPool")
		for i := 0; i < n; i++ {
			c.Creds = append(c.Creds, credPool[rapid.IntRange(0, len(credPool)-1).Draw(t, "credN")])
		}
	}
	c.ClientSide = rapid.Bool().Draw(t, "clientSide")
	// method list: length 0..255, boundary heavy
	n := rapid.SampledFrom([]int{0, 1, 1, 2, 2, 2, 3, 5, 17, 255}).Draw(t, "nMethods")
	for i := 0; i < n; i++ {
		c.Methods = append(c.Methods, rapid.SampledFrom(methodAlphabet).Draw(t, "method"))
	}
	c.SubVer = rapid.SampledFrom([]byte{1, 1, 1, 1, 0, 2, 5}).Draw(t, "subVer")
	// supplied credentials: matching, wrong user, wrong password, prefix, empty, 255 bytes
	kind := rapid.IntRange(0, 15).Draw(t, "supKind")
	base := Cred{"u1", "p1"}
	other := Cred{"u2", "p2"}
	if len(c.Creds) > 0 {
		base = c.Creds[rapid.IntRange(0, len(c.Creds)-1).Draw(t, "which")]
		other = c.Creds[rapid.IntRange(0, len(c.Creds)-1).Draw(t, "whichOther")]
	}
	switch kind {
	case 0, 1, 2:
		c.User, c.Pass = base.User, base.Pass
	case 3:
		c.User, c.Pass = base.User+"x", base.Pass
	case 4:
		c.User, c.Pass = base.User, base.Pass+"x"
	case 5:
		c.User, c.Pass = "", ""
	case 6:
		// prefix of the right password
		c.User = base.User
		if len(base.Pass) > 0 {
			c.Pass = base.Pass[:len(base.Pass)-1]
		}
	case 7:
		c.User, c.Pass = long(255, 'a'), long(255, 'b')
	case 8:
		// the user/password boundary moved: same concatenation, other split
		cat := base.User + base.Pass
		k := rapid.IntRange(0, len(cat)).Draw(t, "split")
		c.User, c.Pass = cat[:k], cat[k:]
	case 9:
		// user of one configured pair with the password of another
		c.User, c.Pass = base.User, other.Pass
	case 10:
		c.User, c.Pass = base.Pass, base.User
	case 11:
		// letter case changed
		c.User, c.Pass = swapCase(base.User), base.Pass
		if rapid.Bool().Draw(t, "casePass") {
			c.User, c.Pass = base.User, swapCase(base.Pass)
		}
	case 12:
		// a NUL or space appended / prefix of the user
		switch rapid.IntRange(0, 3).Draw(t, "pad") {
		case 0:
			c.User, c.Pass = base.User+"\x00", base.Pass
		case 1:
			c.User, c.Pass = base.User, base.Pass+" "
		case 2:
			c.User, c.Pass = " "+base.User, base.Pass
		default:
			if len(base.User) > 0 {
				c.User = base.User[:len(base.User)-1]
			}
			c.Pass = base.Pass
		}
	case 13:
		// right user, empty password / empty user, right password
		if rapid.Bool().Draw(t, "emptyWhich") {
			c.User, c.Pass = base.User, ""
		} else {
			c.User, c.Pass = "", base.Pass
		}
	case 14:
		// the first 255 bytes of an over-long configured field
		c.User, c.Pass = base.User, base.Pass
	default:
		c.User = rapid.StringN(0, 12, 12).Draw(t, "rndUser")
		c.Pass = rapid.StringN(0, 12, 12).Draw(t, "rndPass")
	}
	if len(c.User) > 255 {
		c.User = c.User[:255]
	}
	if len(c.Pass) > 255 {
		c.Pass = c.Pass[:255]
	}
	c.TruncateAt = -1
	if rapid.IntRange(0, 3).Draw(t, "truncate?") == 0 {
		c.TruncateAt = rapid.IntRange(0, 40).Draw(t, "truncateAt")
	}
	return c
}

// recording proxy dialer for the client-side placement
type recDialer struct {
	mu    sync.Mutex
	calls int
	got   []byte
	sn    *simnet.StreamNet
}

func (d *recDialer) DialContext(ctx context.Context) (net.Conn, error) {
	d.mu.Lock()
	d.calls++
	d.mu.Unlock()
	a, b := net.Pipe()
	go func() {
		// fake proxy server end: record what is forwarded, answer a request with REJECT
		buf := make([]byte, 4096)
		for {
			b.SetReadDeadline(time.Now().Add(3 * time.Second))
			n, err := b.Read(buf)
			if n > 0 {
				d.mu.Lock()
				d.got = append(d.got, buf[:n]...)
				complete := len(d.got) >= 10
				d.mu.Unlock()
				if complete {
					b.Write([]byte{5, 2, 0, 1, 0, 0, 0, 0, 0, 0})
				}
			}
			if err != nil {
				b.Close()
				return
			}
		}
	}()
	return a, nil
}

var request = []byte{5, 1, 0, 1, 93, 184, 216, 34, 0, 80} // CONNECT 93.184.216.34:80

func prop(c Case) (o pbt.Outcome) {
	cfg := &socks5.Config{HandshakeTimeout: 1500 * time.Millisecond}
	for _, cr := range c.Creds {
		cfg.AuthOpts.IngressCredentials = append(cfg.AuthOpts.IngressCredentials, socks5.Credential{User: cr.User, Password: cr.Pass})
	}
	dialer := &recDialer{}
	if c.ClientSide {
		cfg.UseProxy = true
		cfg.ProxyDialer = dialer
		cfg.AuthOpts.ClientSideAuthentication = true
	} else {
		// server-side: answer every request with "not allowed by ruleset", so
		// that "request served" is observable without dialling anywhere.
		cfg.Egress = &pb.Egress{Rules: []*pb.EgressRule{{IpRanges: []string{"*"}, DomainNames: []string{"*"}, Action: pb.EgressAction_REJECT.Enum()}}}
		cfg.Users = map[string]*pb.User{"x": {Name: proto.String("x")}}
	}
	srv, err := socks5.New(cfg)
	if err != nil {
		o.Failf("harness", "socks5.New: %v", err)
		return
	}
	sn := simnet.NewStreamNet(simnet.StreamOpts{})
	ln, _ := sn.Listen(context.Background(), "tcp", "10.0.0.1:1080")
	defer ln.Close()
	serveDone := make(chan error, 1)
	go func() {
		conn, err := ln.Accept()
		if err != nil {
			serveDone <- err
			return
		}
		serveDone <- srv.ServeConn(conn)
	}()
	conn, err := sn.DialContext(context.Background(), "tcp", "10.0.0.1:1080")
	if err != nil {
		o.Failf("harness", "dial: %v", err)
		return
	}
	defer conn.Close()

	// scripted RFC 1928/1929 client with an output budget (truncation)
	sent := 0
	truncated := false
	write := func(b []byte) bool {
		if c.TruncateAt >= 0 && sent+len(b) > c.TruncateAt {
			k := c.TruncateAt - sent
			if k > 0 {
				conn.Write(b[:k])
			}
			sent = c.TruncateAt
			truncated = true
			return false
		}
		conn.Write(b)
		sent += len(b)
		return true
	}
	read := func(n int) ([]byte, bool) {
		buf := make([]byte, n)
		conn.SetReadDeadline(time.Now().Add(4 * time.Second))
		_, err := io.ReadFull(conn, buf)
		return buf, err == nil
	}

	var selection = -1 // method selected by the server, -1 none
	supplied := false
	authOK := false
	served := false
	var transcript []string
	func() {
		greeting := []byte{5, byte(len(c.Methods))}
		for _, m := range c.Methods {
			greeting = append(greeting, byte(m))
		}
		if !write(greeting) {
			return
		}
		sel, ok := read(2)
		if !ok {
			transcript = append(transcript, "no method selection")
			return
		}
		transcript = append(transcript, fmt.Sprintf("selection % x", sel))
		selection = int(sel[1])
		switch sel[1] {
		case 0x00:
		case 0x02:
			sub := []byte{c.SubVer, byte(len(c.User))}
			sub = append(sub, c.User...)
			sub = append(sub, byte(len(c.Pass)))
			sub = append(sub, c.Pass...)
			if !write(sub) {
				return
			}
			supplied = true
			st, ok := read(2)
			if !ok {
				transcript = append(transcript, "no auth status")
				return
			}
			transcript = append(transcript, fmt.Sprintf("status % x", st))
			if st[1] != 0 {
				return
			}
			authOK = true
		default:
			return
		}
		if !write(request) {
			return
		}
		rep, ok := read(10)
		if ok {
			transcript = append(transcript, fmt.Sprintf("reply % x", rep))
			served = true
		} else {
			transcript = append(transcript, "no reply")
		}
	}()
	if truncated {
		// give the server the chance to act on what it has, then close
		time.Sleep(2 * time.Millisecond)
	}
	conn.Close()
	select {
	case <-serveDone:
	case <-time.After(6 * time.Second):
		o.Inconclusive = "ServeConn did not return within 6 s"
		return
	}
	dialer.mu.Lock()
	dialCalls, forwarded := dialer.calls, len(dialer.got)
	dialer.mu.Unlock()
	if c.ClientSide && (dialCalls > 0 && forwarded > 0) {
		served = true
	}
	o.Obs = map[string]any{"transcript": transcript, "dialCalls": dialCalls, "forwardedBytes": forwarded, "served": served}

	// classification
	has := func(m byte) bool {
		for _, x := range c.Methods {
			if byte(x) == m {
				return true
			}
		}
		return false
	}
	distinct := map[int]bool{}
	for _, m := range c.Methods {
		distinct[m] = true
	}
	matching := false
	for _, cr := range c.Creds {
		if cr.User == c.User && cr.Pass == c.Pass {
			matching = true
		}
	}
	o.Label("creds=%d", len(c.Creds))
	o.Label("clientSide=%v", c.ClientSide)
	o.Label("offers00=%v,02=%v", has(0), has(2))
	o.Label("truncated=%v", truncated)
	o.Label("matching=%v", matching)
	unpresentable := len(c.Creds) > 0
	for _, cr := range c.Creds {
		if len(cr.User) <= 255 && len(cr.Pass) <= 255 {
			unpresentable = false
		}
	}
	o.Label("allConfiguredPairsUnpresentable=%v", unpresentable)
	o.NonTrivial = len(c.Creds) > 0 && (len(distinct) >= 2 || c.SubVer != 1 || truncated)

	// oracle
	if selection >= 0 && selection != 0xFF && !has(byte(selection)) {
		o.Failf("selection", "server selected method 0x%02x which the client did not offer (%v)", selection, c.Methods)
		return
	}
	sig := fmt.Sprintf("creds+offers00=%v+offers02=%v", has(0), has(2))
	if len(c.Creds) > 0 {
		legit := selection == 0x02 && supplied && c.SubVer == 1 && matching && authOK
		if served && !legit {
			o.Failf(sig, "credentials are configured, yet a request was served without them: methods=%v selection=0x%02x supplied=%v matching=%v subVer=%d transcript=%v dialCalls=%d", c.Methods, selection, supplied, matching, c.SubVer, transcript, dialCalls)
			return
		}
		if c.ClientSide && dialCalls > 0 && !legit {
			o.Failf(sig, "credentials are configured, yet the proxy was dialled without them: methods=%v selection=0x%02x transcript=%v", c.Methods, selection, transcript)
			return
		}
		if authOK && !(matching && c.SubVer == 1) {
			o.Failf("auth-accept", "sub-negotiation accepted user=%q pass=%q ver=%d which is not a configured pair", c.User, c.Pass, c.SubVer)
			return
		}
		// positive direction: a client that offers user/password and presents a
		// configured pair is served
		if has(2) && matching && c.SubVer == 1 && !truncated && !served {
			o.Failf("auth-refused", "a configured pair presented via method 0x02 was not served: transcript=%v", transcript)
			return
		}
	} else {
		if has(0) && !truncated && !served {
			o.Failf("noauth-refused", "no credentials configured and 0x00 offered, but the request was not served: transcript=%v", transcript)
			return
		}
		if !has(0) && served {
			o.Failf("noauth-userpass", "no credentials configured; a client not offering 0x00 (methods %v) was served", c.Methods)
			return
		}
		if selection == 0x02 {
			o.Failf("noauth-userpass", "no credentials configured, yet the server selected username/password")
			return
		}
	}
	return
}

func TestC11(t *testing.T) {
	pbt.Run(t, "C11", "auth", genCase, prop)
}
