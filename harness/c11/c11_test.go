// C11 — with SOCKS5 credentials configured, nothing is proxied without them.
// See DESIGN.md section 3.11.
package c11

import (
	"context"
	"fmt"
	"io"
	"net"
	"sync"
	"testing"
	"time"

	pb "github.com/enfein/mieru/v3/pkg/appctl/appctlpb"
	"github.com/enfein/mieru/v3/pkg/socks5"
	"google.golang.org/protobuf/proto"
	"pgregory.net/rapid"

	"verif/harness/pbt"
	"verif/harness/simnet"
)

type Cred struct {
	User string `json:"user"`
	Pass string `json:"pass"`
}

type Case struct {
	Creds      []Cred `json:"creds"`                // configured credentials (may be empty)
	ClientSide bool   `json:"clientSide,omitempty"` // authentication placed at the proxy client (UseProxy)
	Methods    []int  `json:"methods"`
	SubVer     byte   `json:"subVer"`
	User       string `json:"supUser"`
	Pass       string `json:"supPass"`
	// TruncateAt >= 0 cuts the client's total output after that many bytes and closes.
	TruncateAt int `json:"truncateAt"`
}

var methodAlphabet = []int{0x00, 0x00, 0x02, 0x02, 0x01, 0x80, 0xFF}

func long(n int, c byte) string {
	b := make([]byte, n)
	for i := range b {
		b[i] = c
	}
	return string(b)
}

func genCase(t *rapid.T) Case {
	var c Case
	credPool := []Cred{{"u1", "p1"}, {"u2", "p2"}, {"user", "pass"}, {"u1x", "p1"}, {long(255, 'a'), long(255, 'b')}, {"", ""}, {"u1", ""}}
	switch rapid.IntRange(0, 3).Draw(t, "nCreds") {
	case 0:
	case 1, 2:
		c.Creds = []Cred{credPool[rapid.IntRange(0, 4).Draw(t, "cred0")]}
	default:
		c.Creds = []Cred{credPool[0], credPool[1], credPool[rapid.IntRange(2, 4).Draw(t, "cred2")]}
	}
	c.ClientSide = rapid.Bool().Draw(t, "clientSide")
	// method list: length 0..255, boundary heavy
	n := rapid.SampledFrom([]int{0, 1, 1, 2, 2, 2, 3, 5, 17, 255}).Draw(t, "nMethods")
	for i := 0; i < n; i++ {
		c.Methods = append(c.Methods, rapid.SampledFrom(methodAlphabet).Draw(t, "method"))
	}
	c.SubVer = rapid.SampledFrom([]byte{1, 1, 1, 1, 0, 2, 5}).Draw(t, "subVer")
	// supplied credentials: matching, wrong user, wrong password, prefix, empty, 255 bytes
	kind := rapid.IntRange(0, 7).Draw(t, "supKind")
	base := Cred{"u1", "p1"}
	if len(c.Creds) > 0 {
		base = c.Creds[rapid.IntRange(0, len(c.Creds)-1).Draw(t, "which")]
	}
	switch kind {
	case 0, 1, 2:
		c.User, c.Pass = base.User, base.Pass
	case 3:
		c.User, c.Pass = base.User+"x", base.Pass
	case 4:
		c.User, c.Pass = base.User, base.Pass+"x"
	case 5:
		c.User, c.Pass = "", ""
	case 6:
		// prefix of the right password
		c.User = base.User
		if len(base.Pass) > 0 {
			c.Pass = base.Pass[:len(base.Pass)-1]
		}
	default:
		c.User, c.Pass = long(255, 'a'), long(255, 'b')
	}
	if len(c.User) > 255 {
		c.User = c.User[:255]
	}
	if len(c.Pass) > 255 {
		c.Pass = c.Pass[:255]
	}
	c.TruncateAt = -1
	if rapid.IntRange(0, 3).Draw(t, "truncate?") == 0 {
		c.TruncateAt = rapid.IntRange(0, 40).Draw(t, "truncateAt")
	}
	return c
}

// recording proxy dialer for the client-side placement
type recDialer struct {
	mu    sync.Mutex
	calls int
	got   []byte
	sn    *simnet.StreamNet
}

func (d *recDialer) DialContext(ctx context.Context) (net.Conn, error) {
	d.mu.Lock()
	d.calls++
	d.mu.Unlock()
	a, b := net.Pipe()
	go func() {
		// fake proxy server end: record what is forwarded, answer a request with REJECT
		buf := make([]byte, 4096)
		for {
			b.SetReadDeadline(time.Now().Add(3 * time.Second))
			n, err := b.Read(buf)
			if n > 0 {
				d.mu.Lock()
				d.got = append(d.got, buf[:n]...)
				complete := len(d.got) >= 10
				d.mu.Unlock()
				if complete {
					b.Write([]byte{5, 2, 0, 1, 0, 0, 0, 0, 0, 0})
				}
			}
			if err != nil {
				b.Close()
				return
			}
		}
	}()
	return a, nil
}

var request = []byte{5, 1, 0, 1, 93, 184, 216, 34, 0, 80} // CONNECT 93.184.216.34:80

func prop(c Case) (o pbt.Outcome) {
	cfg := &socks5.Config{HandshakeTimeout: 1500 * time.Millisecond}
	for _, cr := range c.Creds {
		cfg.AuthOpts.IngressCredentials = append(cfg.AuthOpts.IngressCredentials, socks5.Credential{User: cr.User, Password: cr.Pass})
	}
	dialer := &recDialer{}
	if c.ClientSide {
		cfg.UseProxy = true
		cfg.ProxyDialer = dialer
		cfg.AuthOpts.ClientSideAuthentication = true
	} else {
		// server-side: answer every request with "not allowed by ruleset", so
		// that "request served" is observable without dialling anywhere.
		cfg.Egress = &pb.Egress{Rules: []*pb.EgressRule{{IpRanges: []string{"*"}, DomainNames: []string{"*"}, Action: pb.EgressAction_REJECT.Enum()}}}
		cfg.Users = map[string]*pb.User{"x": {Name: proto.String("x")}}
	}
	srv, err := socks5.New(cfg)
	if err != nil {
		o.Failf("harness", "socks5.New: %v", err)
		return
	}
	sn := simnet.NewStreamNet(simnet.StreamOpts{})
	ln, _ := sn.Listen(context.Background(), "tcp", "10.0.0.1:1080")
	defer ln.Close()
	serveDone := make(chan error, 1)
	go func() {
		conn, err := ln.Accept()
		if err != nil {
			serveDone <- err
			return
		}
		serveDone <- srv.ServeConn(conn)
	}()
	conn, err := sn.DialContext(context.Background(), "tcp", "10.0.0.1:1080")
	if err != nil {
		o.Failf("harness", "dial: %v", err)
		return
	}
	defer conn.Close()

	// scripted RFC 1928/1929 client with an output budget (truncation)
	sent := 0
	truncated := false
	write := func(b []byte) bool {
		if c.TruncateAt >= 0 && sent+len(b) > c.TruncateAt {
			k := c.TruncateAt - sent
			if k > 0 {
				conn.Write(b[:k])
			}
			sent = c.TruncateAt
			truncated = true
			return false
		}
		conn.Write(b)
		sent += len(b)
		return true
	}
	read := func(n int) ([]byte, bool) {
		buf := make([]byte, n)
		conn.SetReadDeadline(time.Now().Add(4 * time.Second))
		_, err := io.ReadFull(conn, buf)
		return buf, err == nil
	}

	var selection = -1 // method selected by the server, -1 none
	supplied := false
	authOK := false
	served := false
	var transcript []string
	func() {
		greeting := []byte{5, byte(len(c.Methods))}
		for _, m := range c.Methods {
			greeting = append(greeting, byte(m))
		}
		if !write(greeting) {
			return
		}
		sel, ok := read(2)
		if !ok {
			transcript = append(transcript, "no method selection")
			return
		}
		transcript = append(transcript, fmt.Sprintf("selection % x", sel))
		selection = int(sel[1])
		switch sel[1] {
		case 0x00:
		case 0x02:
			sub := []byte{c.SubVer, byte(len(c.User))}
			sub = append(sub, c.User...)
			sub = append(sub, byte(len(c.Pass)))
			sub = append(sub, c.Pass...)
			if !write(sub) {
				return
			}
			supplied = true
			st, ok := read(2)
			if !ok {
				transcript = append(transcript, "no auth status")
				return
			}
			transcript = append(transcript, fmt.Sprintf("status % x", st))
			if st[1] != 0 {
				return
			}
			authOK = true
		default:
			return
		}
		if !write(request) {
			return
		}
		rep, ok := read(10)
		if ok {
			transcript = append(transcript, fmt.Sprintf("reply % x", rep))
			served = true
		} else {
			transcript = append(transcript, "no reply")
		}
	}()
	if truncated {
		// give the server the chance to act on what it has, then close
		time.Sleep(2 * time.Millisecond)
	}
	conn.Close()
	select {
	case <-serveDone:
	case <-time.After(6 * time.Second):
		o.Inconclusive = "ServeConn did not return within 6 s"
		return
	}
	dialer.mu.Lock()
	dialCalls, forwarded := dialer.calls, len(dialer.got)
	dialer.mu.Unlock()
	if c.ClientSide && (dialCalls > 0 && forwarded > 0) {
		served = true
	}
	o.Obs = map[string]any{"transcript": transcript, "dialCalls": dialCalls, "forwardedBytes": forwarded, "served": served}

	// classification
	has := func(m byte) bool {
		for _, x := range c.Methods {
			if byte(x) == m {
				return true
			}
		}
		return false
	}
	distinct := map[int]bool{}
	for _, m := range c.Methods {
		distinct[m] = true
	}
	matching := false
	for _, cr := range c.Creds {
		if cr.User == c.User && cr.Pass == c.Pass {
			matching = true
		}
	}
	o.Label("creds=%d", len(c.Creds))
	o.Label("clientSide=%v", c.ClientSide)
	o.Label("offers00=%v,02=%v", has(0), has(2))
	o.Label("truncated=%v", truncated)
	o.NonTrivial = len(c.Creds) > 0 && (len(distinct) >= 2 || c.SubVer != 1 || truncated)

	// oracle
	if selection >= 0 && selection != 0xFF && !has(byte(selection)) {
		o.Failf("selection", "server selected method 0x%02x which the client did not offer (%v)", selection, c.Methods)
		return
	}
	sig := fmt.Sprintf("creds+offers00=%v+offers02=%v", has(0), has(2))
	if len(c.Creds) > 0 {
		legit := selection == 0x02 && supplied && c.SubVer == 1 && matching && authOK
		if served && !legit {
			o.Failf(sig, "credentials are configured, yet a request was served without them: methods=%v selection=0x%02x supplied=%v matching=%v subVer=%d transcript=%v dialCalls=%d", c.Methods, selection, supplied, matching, c.SubVer, transcript, dialCalls)
			return
		}
		if c.ClientSide && dialCalls > 0 && !legit {
			o.Failf(sig, "credentials are configured, yet the proxy was dialled without them: methods=%v selection=0x%02x transcript=%v", c.Methods, selection, transcript)
			return
		}
		if authOK && !(matching && c.SubVer == 1) {
			o.Failf("auth-accept", "sub-negotiation accepted user=%q pass=%q ver=%d which is not a configured pair", c.User, c.Pass, c.SubVer)
			return
		}
		// positive direction: a client that offers user/password and presents a
		// configured pair is served
		if has(2) && matching && c.SubVer == 1 && !truncated && !served {
			o.Failf("auth-refused", "a configured pair presented via method 0x02 was not served: transcript=%v", transcript)
			return
		}
	} else {
		if has(0) && !truncated && !served {
			o.Failf("noauth-refused", "no credentials configured and 0x00 offered, but the request was not served: transcript=%v", transcript)
			return
		}
		if !has(0) && served {
			o.Failf("noauth-userpass", "no credentials configured; a client not offering 0x00 (methods %v) was served", c.Methods)
			return
		}
		if selection == 0x02 {
			o.Failf("noauth-userpass", "no credentials configured, yet the server selected username/password")
			return
		}
	}
	return
}

func TestC11(t *testing.T) {
	pbt.Run(t, "C11", "auth", genCase, prop)
}
