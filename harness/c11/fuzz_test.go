package c11

import (
	"testing"

	"verif/harness/pbt"
)

func FuzzC11Auth(f *testing.F) { pbt.Fuzz(f, "C11", "auth", genCase, prop) }
