// C11 (daemon part): the SOCKS5 listener as the client daemon really builds
// it. "mieru run" is started once per test process from a JSON configuration
// with socks5Authentication entries (pkg/cli wires them into the listener);
// every case is one negotiation against the daemon's loopback port. A request
// counts as forwarded when the daemon dials the profile's proxy server, which
// is a listener of the harness.
package c11d

import (
	"fmt"
	"io"
	"net"
	"os"
	"path/filepath"
	"sync"
	"sync/atomic"
	"testing"
	"time"

	"github.com/enfein/mieru/v3/pkg/appctl"
	"github.com/enfein/mieru/v3/pkg/cli"
	"pgregory.net/rapid"

	"verif/harness/pbt"
	"verif/harness/refproto"
)

type Cred struct{ User, Pass string }

// what the daemon is configured with (validation requires non-empty fields)
var configured = []Cred{{"alice", "secret"}, {"bob", "hunter2"}, {"u", "p"}, {"alicesecret", "x"}}

type Case struct {
	Methods    []int  `json:"methods"`
	SubVer     byte   `json:"subVer"`
	User       string `json:"supUser"`
	Pass       string `json:"supPass"`
	TruncateAt int    `json:"truncateAt"`
}

var methodAlphabet = []int{0x00, 0x00, 0x02, 0x02, 0x01, 0x80, 0xFF}

func gen(t *rapid.T) Case {
	var c Case
	n := rapid.SampledFrom([]int{0, 1, 1, 2, 2, 2, 3, 5, 17, 255}).Draw(t, "nMethods")
	for i := 0; i < n; i++ {
		c.Methods = append(c.Methods, rapid.SampledFrom(methodAlphabet).Draw(t, "method"))
	}
	c.SubVer = rapid.SampledFrom([]byte{1, 1, 1, 1, 0, 2, 5}).Draw(t, "subVer")
	base := configured[rapid.IntRange(0, len(configured)-1).Draw(t, "which")]
	other := configured[rapid.IntRange(0, len(configured)-1).Draw(t, "whichOther")]
	switch rapid.IntRange(0, 11).Draw(t, "supKind") {
	case 0, 1, 2:
		c.User, c.Pass = base.User, base.Pass
	case 3:
		c.User, c.Pass = base.User+"x", base.Pass
	case 4:
		c.User, c.Pass = base.User, base.Pass+"x"
	case 5:
		c.User, c.Pass = "", ""
	case 6:
		c.User, c.Pass = base.User, base.Pass[:len(base.Pass)-1]
	case 7:
		cat := base.User + base.Pass
		k := rapid.IntRange(0, len(cat)).Draw(t, "split")
		c.User, c.Pass = cat[:k], cat[k:]
	case 8:
		c.User, c.Pass = base.User, other.Pass
	case 9:
		c.User, c.Pass = base.Pass, base.User
	case 10:
		if rapid.Bool().Draw(t, "emptyWhich") {
			c.User, c.Pass = base.User, ""
		} else {
			c.User, c.Pass = "", base.Pass
		}
	default:
		c.User = rapid.StringN(0, 12, 12).Draw(t, "rndUser")
		c.Pass = rapid.StringN(0, 12, 12).Draw(t, "rndPass")
	}
	c.TruncateAt = -1
	if rapid.IntRange(0, 4).Draw(t, "truncate?") == 0 {
		c.TruncateAt = rapid.IntRange(0, 30).Draw(t, "truncateAt")
	}
	return c
}

var (
	startOnce   sync.Once
	startErr    error
	socksAddr   string
	dials       atomic.Int64
	opens       atomic.Int64
	undecodable atomic.Int64
)

func freePort() int {
	l, err := net.Listen("tcp", "127.0.0.1:0")
	if err != nil {
		return 0
	}
	defer l.Close()
	return l.Addr().(*net.TCPAddr).Port
}

func startDaemon() {
	startOnce.Do(func() {
		proxy, err := net.Listen("tcp", "127.0.0.1:0")
		if err != nil {
			startErr = err
			return
		}
		go func() {
			for {
				c, err := proxy.Accept()
				if err != nil {
					return
				}
				dials.Add(1)
				// keep the connection: the daemon multiplexes sessions on it, and
				// every forwarded request shows up as bytes arriving here
				go func(c net.Conn) {
					// count the sessions the daemon opens: every forwarded request
					// is an open session request on one of these connections
					keys := refproto.KeysAround(refproto.HashedPassword("proxypassword", "proxyuser"), time.Now().Unix())
					dec := refproto.NewStreamDecoder(keys)
					var pending []byte
					buf := make([]byte, 4096)
					for {
						n, err := c.Read(buf)
						pending = append(pending, buf[:n]...)
						for {
							seg, k, derr := dec.Next(pending)
							if derr != nil {
								if derr != refproto.ErrNeedMore {
									undecodable.Add(1)
									pending = nil
								}
								break
							}
							pending = pending[k:]
							if seg.Meta.Proto == refproto.OpenSessionRequest {
								opens.Add(1)
							}
						}
						if err != nil {
							c.Close()
							return
						}
					}
				}(c)
			}
		}()
		socksPort := freePort()
		auth := ""
		for i, cr := range configured {
			if i > 0 {
				auth += ","
			}
			auth += fmt.Sprintf(`{"user": %q, "password": %q}`, cr.User, cr.Pass)
		}
		config := fmt.Sprintf(`{"profiles":[{"profileName":"default","user":{"name":"proxyuser","password":"proxypassword"},
 "servers":[{"ipAddress":"127.0.0.1","portBindings":[{"port":%d,"protocol":"TCP"}]}],"mtu":1400}],
 "activeProfile":"default","rpcPort":0,"socks5Port":%d,"loggingLevel":"ERROR","socks5Authentication":[%s]}`,
			proxy.Addr().(*net.TCPAddr).Port, socksPort, auth)
		dir, err := os.MkdirTemp("", "c11d-")
		if err != nil {
			startErr = err
			return
		}
		path := filepath.Join(dir, "client.json")
		if err := os.WriteFile(path, []byte(config), 0o600); err != nil {
			startErr = err
			return
		}
		os.Unsetenv(appctl.EnvMieruConfigFile)
		os.Setenv(appctl.EnvMieruConfigJSONFile, path)
		appctl.RecordAppStartTime()
		os.Args = []string{"mieru", "run"}
		cli.RegisterClientCommands()
		runErr := make(chan error, 1)
		go func() { runErr <- cli.ParseAndExecute() }()
		select {
		case <-appctl.ClientSocks5ServerStarted:
		case err := <-runErr:
			startErr = fmt.Errorf("mieru run returned early: %v", err)
			return
		case <-time.After(60 * time.Second):
			startErr = fmt.Errorf("the client daemon did not start its socks5 listener")
			return
		}
		socksAddr = fmt.Sprintf("127.0.0.1:%d", socksPort)
	})
}

var request = []byte{5, 1, 0, 3, 7, 'e', 'x', '.', 't', 'e', 's', 't', 0, 80}

func prop(c Case) (o pbt.Outcome) {
	startDaemon()
	if startErr != nil {
		o.Inconclusive = "daemon: " + startErr.Error()
		return
	}
	conn, err := net.Dial("tcp", socksAddr)
	if err != nil {
		o.Inconclusive = "dial: " + err.Error()
		return
	}
	defer conn.Close()
	opens0 := opens.Load()
	sent, truncated := 0, false
	write := func(b []byte) bool {
		if c.TruncateAt >= 0 && sent+len(b) > c.TruncateAt {
			if k := c.TruncateAt - sent; k > 0 {
				conn.Write(b[:k])
			}
			sent, truncated = c.TruncateAt, true
			return false
		}
		conn.Write(b)
		sent += len(b)
		return true
	}
	read := func(n int) ([]byte, bool) {
		buf := make([]byte, n)
		conn.SetReadDeadline(time.Now().Add(3 * time.Second))
		_, err := io.ReadFull(conn, buf)
		return buf, err == nil
	}
	selection, supplied, authOK := -1, false, false
	var transcript []string
	func() {
		greeting := []byte{5, byte(len(c.Methods))}
		for _, m := range c.Methods {
			greeting = append(greeting, byte(m))
		}
		if !write(greeting) {
			return
		}
		sel, ok := read(2)
		if !ok {
			transcript = append(transcript, "no method selection")
			return
		}
		transcript = append(transcript, fmt.Sprintf("selection % x", sel))
		selection = int(sel[1])
		switch sel[1] {
		case 0x00:
		case 0x02:
			sub := append([]byte{c.SubVer, byte(len(c.User))}, c.User...)
			sub = append(append(sub, byte(len(c.Pass))), c.Pass...)
			if !write(sub) {
				return
			}
			supplied = true
			st, ok := read(2)
			if !ok {
				transcript = append(transcript, "no auth status")
				return
			}
			transcript = append(transcript, fmt.Sprintf("status % x", st))
			if st[1] != 0 {
				return
			}
			authOK = true
		default:
			return
		}
		write(request)
	}()
	// the daemon dials the proxy server as soon as the negotiation passed
	wait := 60 * time.Millisecond
	if authOK || selection == 0 {
		wait = time.Second
	}
	for end := time.Now().Add(wait); opens.Load() == opens0 && time.Now().Before(end); {
		time.Sleep(2 * time.Millisecond)
	}
	forwarded := opens.Load() > opens0
	if undecodable.Load() > 0 {
		o.Inconclusive = "the reference decoder could not follow the daemon's connection to the proxy server"
		return
	}
	matching := false
	for _, cr := range configured {
		if cr.User == c.User && cr.Pass == c.Pass {
			matching = true
		}
	}
	has := func(m int) bool {
		for _, x := range c.Methods {
			if x == m {
				return true
			}
		}
		return false
	}
	o.NonTrivial = true
	o.Label("offers00=%v,02=%v", has(0), has(2))
	o.Label("matching=%v", matching)
	o.Label("truncated=%v", truncated)
	o.Obs = map[string]any{"transcript": transcript, "forwarded": forwarded}
	legit := selection == 0x02 && supplied && c.SubVer == 1 && matching && authOK
	sig := fmt.Sprintf("daemon/creds+offers00=%v+offers02=%v", has(0), has(2))
	if forwarded && !legit {
		o.Failf(sig, "the daemon is configured with socks5Authentication, yet it dialled the proxy server for a negotiation that did not present a configured pair: methods=%v selection=0x%02x user=%q pass=%q subVer=%d transcript=%v", c.Methods, selection, c.User, c.Pass, c.SubVer, transcript)
		return
	}
	if authOK && !(matching && c.SubVer == 1) {
		o.Failf("daemon/auth-accept", "the daemon accepted user=%q pass=%q ver=%d, which is not a configured pair", c.User, c.Pass, c.SubVer)
		return
	}
	if selection == 0 {
		o.Failf(sig, "the daemon is configured with socks5Authentication, yet it selected 'no authentication' (methods %v)", c.Methods)
		return
	}
	if has(2) && matching && c.SubVer == 1 && !truncated && !forwarded {
		o.Failf("daemon/auth-refused", "a configured pair presented via method 0x02 was not forwarded: transcript=%v", transcript)
	}
	return
}

func TestC11Daemon(t *testing.T) {
	pbt.Run(t, "C11", "daemon", gen, prop)
}
