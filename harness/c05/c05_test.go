// C05 — no credential: the server stays silent and creates nothing.
// See DESIGN.md section 3.5.
package c05

import (
	"context"
	"fmt"
	"net"
	"testing"
	"time"

	"pgregory.net/rapid"

	"verif/harness/e2e"
	"verif/harness/pbt"
	"verif/harness/refproto"
	"verif/harness/simnet"
)

type Probe struct {
	Kind int `json:"k"` // 0 random bytes, 1 prefix of a genuine first segment, 2 one bit of a genuine first segment flipped,
	// 3 well-formed handshake under a wrong password (hint of a real user), 4 well-formed handshake of an unregistered user,
	// 5 genuine first segment with one byte substituted, 6 genuine data/ack-type first segment under a foreign key,
	// 7 reflection: traffic the server itself sent to a genuine client, recorded and sent to the server port
	Len    int    `json:"len,omitempty"`
	Bit    int    `json:"bit,omitempty"`
	Seed   uint64 `json:"seed"`
	User   int    `json:"user,omitempty"`
	GapMs  int    `json:"gapMs,omitempty"`  // pause before this probe
	NewSrc bool   `json:"newSrc,omitempty"` // open a new TCP connection / use a new UDP source for this probe
	Late   bool   `json:"late,omitempty"`   // kind 7: wait until the genuine session has ended and the server's 5 s clean-up has forgotten it
}

type Case struct {
	UDP       bool            `json:"udp,omitempty"`
	NUsers    int             `json:"nUsers"`
	Mandatory bool            `json:"mandatory,omitempty"`
	Probes    []Probe         `json:"probes"`
	CloseEnd  bool            `json:"closeEnd,omitempty"` // prober closes its TCP connections at the end (else leaves them idle)
	Bystander bool            `json:"bystander,omitempty"`
	Salt      uint64          `json:"salt"`
	Pattern   e2e.PatternSpec `json:"serverPattern"`
	CPattern  e2e.PatternSpec `json:"clientPattern"` // the bystander's pattern (low entropy is chosen by the client)
}

var users = []e2e.UserSpec{
	{Name: "alice", Password: "correct horse"},
	{Name: "bob", Password: "battery staple"},
	{Name: "carol", Password: "pw3"},
	{Name: "dave", Password: "pw4"},
	{Name: "eve-registered", Password: "pw5"},
}

func genCase(t *rapid.T) Case {
	var c Case
	c.UDP = rapid.Bool().Draw(t, "udp")
	c.NUsers = rapid.IntRange(1, 5).Draw(t, "nUsers")
	c.Mandatory = rapid.Bool().Draw(t, "mandatory")
	c.CloseEnd = rapid.Bool().Draw(t, "closeEnd")
	c.Bystander = rapid.IntRange(0, 2).Draw(t, "bystander") != 0
	c.Salt = rapid.Uint64().Draw(t, "salt")
	c.Pattern = e2e.GenPattern(t, "sp", 0)
	c.CPattern = e2e.GenPattern(t, "cp", 0)
	n := rapid.IntRange(1, 12).Draw(t, "nProbes")
	for i := 0; i < n; i++ {
		p := Probe{Kind: rapid.SampledFrom([]int{0, 0, 1, 1, 2, 2, 2, 3, 3, 4, 5, 6, 7, 7}).Draw(t, "kind"), Seed: rapid.Uint64().Draw(t, "pseed")}
		p.User = rapid.IntRange(0, c.NUsers-1).Draw(t, "puser")
		p.GapMs = rapid.SampledFrom([]int{0, 0, 0, 1, 10}).Draw(t, "gap")
		p.NewSrc = i == 0 || rapid.IntRange(0, 2).Draw(t, "newSrc") == 0
		switch p.Kind {
		case 0:
			p.Len = rapid.SampledFrom([]int{0, 1, 23, 24, 47, 55, 56, 71, 72, 73, 87, 88, 100, 200, 1400, 1500, 65535}).Draw(t, "len")
			if rapid.Bool().Draw(t, "lenUniform") {
				p.Len = rapid.IntRange(0, 200).Draw(t, "lenU")
			}
		case 1:
			p.Len = rapid.IntRange(0, 120).Draw(t, "prefixLen")
		case 2, 5:
			p.Bit = rapid.IntRange(0, 4000).Draw(t, "bit")
		case 7:
			p.Len = rapid.IntRange(0, 40).Draw(t, "which")
			c.Bystander = true
			if rapid.Bool().Draw(t, "forceLE") {
				// the server uses low entropy only towards a client that uses it
				m1, m2 := int32(rapid.IntRange(1, 4).Draw(t, "leS")), int32(rapid.IntRange(1, 4).Draw(t, "leC"))
				c.Pattern.Nil, c.CPattern.Nil = false, false
				c.Pattern.HasLE, c.Pattern.LEMode = true, &m1
				c.CPattern.HasLE, c.CPattern.LEMode = true, &m2
			}
		}
		c.Probes = append(c.Probes, p)
	}
	return c
}

// genuineFirst builds a genuine open-session request of a registered user
// with a fresh nonce; it returns the bytes and the offset where the
// unauthenticated end padding starts.
func genuineFirst(u e2e.UserSpec, seed uint64, udp bool, proto uint8) ([]byte, int) {
	hp := refproto.HashedPassword(u.Password, u.Name)
	key := refproto.KeyAt(hp, time.Now().Unix())
	nonce := make([]byte, 24)
	e2e.PRFFill(seed, 0, nonce)
	nonce = e2e.UniqueNonce(nonce)
	refproto.SetUserHint(u.Name, nonce)
	pad := make([]byte, int(seed%40))
	e2e.PRFFill(seed^1, 0, pad)
	req := []byte{5, 1, 0, 3, 9, 's', '9', '9', '9', '.', 't', 'e', 's', 't', 0, 80}
	spec := refproto.SegSpec{Meta: refproto.Meta{Proto: proto, Timestamp: uint32(time.Now().Unix() / 60), SessionID: uint32(seed) | 1, Seq: 0}, Payload: req, Pad2: pad, FixLengths: true}
	if refproto.IsDataAck(proto) {
		spec.Payload = []byte("data before open")
	}
	var b []byte
	if udp {
		b, _ = refproto.EncodeDatagram(key, nonce, spec)
	} else {
		b, _ = refproto.NewStreamEncoder(key, nonce).Encode(spec)
	}
	return b, len(b) - len(pad)
}

// missing (kind 1 only) is how many bytes the prefix lacks up to the end of the
// authenticated part of the genuine segment it was cut from.
func buildProbe(c Case, p Probe) (data []byte, derived bool, missing int) {
	u := users[p.User%c.NUsers]
	switch p.Kind {
	case 0:
		b := make([]byte, p.Len)
		e2e.PRFFill(p.Seed, 0, b)
		return b, false, 0
	case 1:
		// cut strictly inside the authenticated part: a copy that is complete up
		// to its (unauthenticated) end padding is still a genuine handshake
		g, authEnd := genuineFirst(u, p.Seed, c.UDP, refproto.OpenSessionRequest)
		n := p.Len
		if n >= authEnd {
			n = authEnd - 1 - n%7
		}
		return g[:n], true, authEnd - n
	case 2:
		g, authEnd := genuineFirst(u, p.Seed, c.UDP, refproto.OpenSessionRequest)
		bit := p.Bit % (authEnd * 8) // only authenticated bytes: a flip inside the padding leaves it genuine
		g[bit/8] ^= 1 << uint(bit%8)
		return g, true, 0
	case 3:
		g, _ := genuineFirst(e2e.UserSpec{Name: u.Name, Password: u.Password + "-wrong"}, p.Seed, c.UDP, refproto.OpenSessionRequest)
		return g, true, 0
	case 4:
		g, _ := genuineFirst(e2e.UserSpec{Name: "mallory", Password: u.Password}, p.Seed, c.UDP, refproto.OpenSessionRequest)
		return g, true, 0
	case 5:
		g, authEnd := genuineFirst(u, p.Seed, c.UDP, refproto.OpenSessionRequest)
		i := p.Bit % authEnd
		g[i] ^= byte(p.Seed>>8) | 1
		return g, true, 0
	default:
		g, _ := genuineFirst(e2e.UserSpec{Name: u.Name, Password: "foreign"}, p.Seed, c.UDP, refproto.DataClientToServer)
		return g, true, 0
	}
}

func prop(c Case) (o pbt.Outcome) {
	cfg := e2e.Config{UDP: c.UDP, Users: users[:c.NUsers], HintMandatory: c.Mandatory, ServerPattern: c.Pattern, ClientPattern: c.CPattern, BothTransports: true}
	sn := simnet.NewStreamNet(simnet.StreamOpts{Record: true})
	pn := simnet.NewPacketNet()
	env, err := e2e.StartServer(cfg, sn, pn)
	if err != nil {
		o.Failf("start", "server start: %v", err)
		return
	}
	defer env.StopBounded(3 * time.Second)

	// genuine bystander from another source address
	byDone := make(chan *e2e.RunResult, 1)
	if c.Bystander {
		if err := env.StartClient(); err != nil {
			o.Failf("harness", "client start: %v", err)
			return
		}
		go func() {
			byDone <- e2e.RunTransfer(env, []e2e.SessProg{{Up: e2e.DirProg{Writes: []int{3000, 10}}, Down: e2e.DirProg{Writes: []int{2000, 5000}, DelayMs: 5}}}, e2e.TransferOpts{Salt: c.Salt, StallAfter: 20 * time.Second, MaxWall: 40 * time.Second})
		}()
	}

	proberIP := net.IPv4(10, 66, 0, 1)
	var probeLinks []*simnet.Link
	var probeAddrs []string
	var curConn *simnet.Conn
	var curSock *simnet.PacketConn
	srvUDP := &net.UDPAddr{IP: net.IPv4(10, 0, 0, 1), Port: 7000}
	nontrivial, reflected, late := 0, 0, 0
	var by *e2e.RunResult
	// a prefix that lacks only a few bytes of its authenticated part can be
	// completed by chance by whatever follows on the same connection (1 byte
	// missing: 1 in 256) and is then a genuine handshake: the connection is not
	// re-used after such a prefix
	abandonConn := false
	for i, p := range c.Probes {
		if p.GapMs > 0 {
			time.Sleep(time.Duration(p.GapMs) * time.Millisecond)
		}
		var data []byte
		var derived bool
		var missing int
		if p.Kind == 7 {
			// reflection: what the server has sent to the genuine client so far
			// (wait briefly for the first of it)
			derived = true
			if p.Late && by == nil {
				select {
				case by = <-byDone:
				case <-time.After(45 * time.Second):
					o.Inconclusive = "bystander did not finish"
					return
				}
				time.Sleep(6500 * time.Millisecond)
				late++
			}
			for end := time.Now().Add(300 * time.Millisecond); ; {
				if c.UDP {
					dg, _ := pn.Snapshot()
					var fromServer [][]byte
					for _, d := range dg {
						if d.From.Port == 7000 && d.To.IP.Equal(net.IPv4(10, 0, 0, 2)) {
							fromServer = append(fromServer, d.Data)
						}
					}
					if len(fromServer) > 0 {
						data = fromServer[p.Len%len(fromServer)]
					}
				} else {
					for _, l := range sn.Links() {
						if !l.ClientAddr.IP.Equal(proberIP) {
							data = l.SentS2C()
						}
					}
				}
				if len(data) > 0 || time.Now().After(end) {
					break
				}
				time.Sleep(5 * time.Millisecond)
			}
			if len(data) > 0 {
				reflected++
			}
		} else {
			data, derived, missing = buildProbe(c, p)
		}
		if len(data) >= 72 || derived {
			nontrivial++
		}
		if c.UDP {
			if p.NewSrc || curSock == nil {
				s, err := pn.Bind(net.IPv4(10, 66, byte(i>>8), byte(i+1)), 0)
				if err != nil {
					o.Failf("harness", "bind: %v", err)
					return
				}
				curSock = s
				probeAddrs = append(probeAddrs, s.LocalAddr().String())
				defer s.Close()
			}
			if len(data) > 1500 {
				data = data[:1500]
			}
			curSock.WriteTo(data, srvUDP)
		} else {
			if p.NewSrc || curConn == nil || abandonConn {
				abandonConn = false
				conn, link, err := sn.DialLinkFrom("10.0.0.1:7000", proberIP)
				if err != nil {
					o.Failf("harness", "dial: %v", err)
					return
				}
				curConn = conn
				probeLinks = append(probeLinks, link)
			}
			curConn.SetWriteDeadline(time.Now().Add(2 * time.Second))
			curConn.Write(data) // the server may have stopped reading: ignore errors
			if p.Kind == 1 && missing < 8 {
				abandonConn = true
			}
		}
	}
	// settle
	time.Sleep(120 * time.Millisecond)
	if c.Bystander && by == nil {
		select {
		case by = <-byDone:
		case <-time.After(45 * time.Second):
			o.Inconclusive = "bystander did not finish"
			return
		}
	}
	check := func(when string) bool {
		for _, l := range probeLinks {
			if n := l.BytesS2C(); n != 0 {
				o.Failf("reply-tcp", "%s: the server wrote %d bytes to a connection that presented no registered credential (probes %+v)", when, n, c.Probes)
				return false
			}
		}
		dgrams, _ := pn.Snapshot()
		for _, d := range dgrams {
			for _, a := range probeAddrs {
				if d.To.String() == a {
					o.Failf("reply-udp", "%s: the server sent a %d-byte datagram to %s, which presented no registered credential", when, len(d.Data), a)
					return false
				}
			}
		}
		want := 0
		if c.Bystander {
			want = 1
		}
		if got := env.Accepts(); got > want {
			o.Failf("session", "%s: Server.Accept delivered %d proxy connections, only %d genuine ones were opened", when, got, want)
			return false
		}
		if len(env.Unknown()) > 0 {
			o.Failf("session", "%s: a proxy connection reached the application although no credential was presented", when)
			return false
		}
		return true
	}
	if !check("at quiescence") {
		return
	}
	if !c.UDP && c.CloseEnd {
		for _, l := range probeLinks {
			l.Client.Close()
		}
		time.Sleep(20 * time.Millisecond)
	}
	env.StopBounded(3 * time.Second)
	if !check("after teardown") {
		return
	}
	if by != nil {
		s := by.Sessions[0]
		if s.OpenErr != "" || s.Up.Mismatch != "" || s.Down.Mismatch != "" || !s.Up.DoneReading || !s.Down.DoneReading {
			o.Failf("bystander", "a genuine session from another source was disturbed while the probes ran: %+v", s)
			return
		}
	}
	o.NonTrivial = nontrivial > 0
	o.Label("udp=%v", c.UDP)
	o.Label("bystander=%v", c.Bystander)
	o.Label("probes=%d", len(c.Probes))
	o.Label("reflected=%v", reflected > 0)
	o.Label("reflectedAfterCleanup=%v", late > 0)
	for _, p := range c.Probes {
		o.Label("kind%d", p.Kind)
	}
	return
}

func TestC05(t *testing.T) {
	pbt.Run(t, "C05", "probe", genCase, prop)
}

var _ = context.Background
var _ = fmt.Sprintf
