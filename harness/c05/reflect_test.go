package c05

import (
	"fmt"
	"io"
	"net"
	"testing"
	"time"

	"pgregory.net/rapid"

	"verif/harness/e2e"
	"verif/harness/pbt"
	"verif/harness/refproto"
	"verif/harness/simnet"
)

// (b) reflection. A party without a credential can still record what the
// server itself sends to a genuine client and send those bytes to the server
// port. They are sealed under a registered user's key, so nothing but the
// server's direction and replay checks keeps them out.
//
// The genuine client here is the reference implementation, not mieru's client:
// mieru's replay caches are process-wide, and a real client running in the
// harness process records every datagram it receives in the very cache the
// server consults, which would hide a missing check (in production the two are
// different processes).

type ReflectCase struct {
	UDP       bool            `json:"udp,omitempty"`
	ServerPat e2e.PatternSpec `json:"serverPattern"`
	LE        bool            `json:"le,omitempty"` // the genuine client sends low-entropy data (the server then answers in kind if its pattern enables it)
	Mode      uint8           `json:"mode,omitempty"`
	Up        []int           `json:"up"`
	Down      []int           `json:"down"`
	KeepOpen  bool            `json:"keepOpen,omitempty"` // the genuine session is still open when the copy arrives
	Late      bool            `json:"late,omitempty"`     // the copy arrives after the server's 5 s clean-up forgot the (closed) session
	Which     int             `json:"which"`              // -1: everything recorded, else one recorded datagram / the stream up to that segment
	Times     int             `json:"times"`
	SID       uint32          `json:"sid"`
	Salt      uint64          `json:"salt"`
}

func genReflect(t *rapid.T) ReflectCase {
	var c ReflectCase
	c.UDP = rapid.IntRange(0, 3).Draw(t, "udp") != 0
	c.ServerPat = e2e.GenPattern(t, "sp", 0)
	c.LE = rapid.Bool().Draw(t, "le")
	if c.LE {
		c.Mode = uint8(rapid.IntRange(1, 4).Draw(t, "mode"))
		if rapid.IntRange(0, 3).Draw(t, "serverLE") != 0 {
			m := int32(rapid.IntRange(1, 4).Draw(t, "serverMode"))
			c.ServerPat.Nil = false
			c.ServerPat.HasLE, c.ServerPat.LEMode = true, &m
		}
	}
	for i := rapid.IntRange(1, 3).Draw(t, "nUp"); i > 0; i-- {
		c.Up = append(c.Up, rapid.SampledFrom([]int{1, 7, 100, 500}).Draw(t, "up"))
	}
	for i := rapid.IntRange(1, 3).Draw(t, "nDown"); i > 0; i-- {
		c.Down = append(c.Down, rapid.SampledFrom([]int{1, 100, 1000, 3000}).Draw(t, "down"))
	}
	c.KeepOpen = rapid.Bool().Draw(t, "keepOpen")
	if !c.KeepOpen {
		c.Late = rapid.IntRange(0, 2).Draw(t, "late") == 0
	}
	c.Which = rapid.IntRange(-1, 12).Draw(t, "which")
	c.Times = rapid.IntRange(1, 2).Draw(t, "times")
	c.SID = rapid.Uint32Range(1, 0xffffffff).Draw(t, "sid")
	c.Salt = rapid.Uint64().Draw(t, "salt")
	return c
}

func socksRequest(idx int) []byte {
	name := fmt.Sprintf("s%d.test", idx)
	b := []byte{5, 1, 0, 3, byte(len(name))}
	b = append(b, name...)
	return append(b, 0, 80)
}

func propReflect(c ReflectCase) (o pbt.Outcome) {
	cfg := e2e.Config{UDP: c.UDP, Users: users[:2], ServerPattern: c.ServerPat}
	sn := simnet.NewStreamNet(simnet.StreamOpts{Record: true})
	pn := simnet.NewPacketNet()
	env, err := e2e.StartServer(cfg, sn, pn)
	if err != nil {
		o.Failf("start", "server start: %v", err)
		return
	}
	defer env.StopBounded(3 * time.Second)
	u := users[0]
	hp := refproto.HashedPassword(u.Password, u.Name)
	now := time.Now()
	key := refproto.KeyAt(hp, now.Unix())
	keys := refproto.KeysAround(hp, now.Unix())
	minute := func() uint32 { return uint32(time.Now().Unix() / 60) }
	ncount := 0
	freshNonce := func() []byte {
		n := make([]byte, 24)
		e2e.PRFFill(c.Salt^0x7171, int64(ncount)*24, n)
		ncount++
		n = e2e.UniqueNonce(n)
		refproto.SetUserHint(u.Name, n)
		return n
	}
	upKey, downKey := e2e.StreamKey(c.Salt, 0, 0), e2e.StreamKey(c.Salt, 0, 1)
	var expectUp, downTotal int64
	for _, n := range c.Up {
		expectUp += int64(n)
	}
	for _, n := range c.Down {
		downTotal += int64(n)
	}
	wantDown := 10 + downTotal // SOCKS5 response + data

	// the server application
	release := make(chan struct{})
	appErr := make(chan error, 1)
	go func() {
		sc, err := env.ServerSide(0, 15*time.Second)
		if err != nil {
			appErr <- err
			return
		}
		buf := make([]byte, expectUp)
		sc.Conn.SetReadDeadline(time.Now().Add(20 * time.Second))
		if _, err := io.ReadFull(sc.Conn, buf); err != nil {
			appErr <- fmt.Errorf("server application read: %w", err)
			return
		}
		off := int64(0)
		for _, d := range c.Down {
			p := make([]byte, d)
			e2e.PRFFill(downKey, off, p)
			off += int64(d)
			if _, err := sc.Conn.Write(p); err != nil {
				appErr <- fmt.Errorf("server application write: %w", err)
				return
			}
		}
		appErr <- nil
		<-release
		sc.Conn.Close()
	}()
	defer close(release)

	dataSpec := func(i int, n int, off int64, seq, unack uint32) refproto.SegSpec {
		payload := make([]byte, n)
		e2e.PRFFill(upKey, off, payload)
		m := refproto.Meta{Proto: refproto.DataClientToServer, Timestamp: minute(), SessionID: c.SID, Seq: seq, UnAck: unack, Window: 4096}
		spec := refproto.SegSpec{Meta: m, Payload: payload, FixLengths: true}
		if c.LE {
			ones := refproto.LESourceBytes(c.Mode) * 4
			var mask uint32
			for b, k := uint(c.Salt%32), 0; k < ones; b, k = (b+1)%32, k+1 {
				mask |= 1 << b
			}
			spec.Meta.Proto = refproto.DataClientToServerLE
			spec.Meta.Byte1, spec.Meta.LEMask = c.Mode, mask
			spec.Meta.LERot = uint8(e2e.ValidRotations[int(c.Salt>>8)%len(e2e.ValidRotations)])
			spec.LEPadBit = uint8(c.Salt>>16) & 1
		}
		return spec
	}
	open := refproto.SegSpec{Meta: refproto.Meta{Proto: refproto.OpenSessionRequest, Timestamp: minute(), SessionID: c.SID, Seq: 0}, Payload: socksRequest(0), FixLengths: true}
	closeSpec := func(seq uint32) refproto.SegSpec {
		return refproto.SegSpec{Meta: refproto.Meta{Proto: refproto.CloseSessionRequest, Timestamp: minute(), SessionID: c.SID, Seq: seq}, FixLengths: true}
	}

	// --- the genuine exchange, recorded ---
	var recordedDgrams [][]byte // UDP: raw datagrams the server sent to the genuine client
	var recordedStream []byte   // TCP: raw bytes the server wrote to the genuine client
	var segEnds []int           // TCP: end offsets of the segments in recordedStream
	sawLE := false
	gotDown := int64(0)
	if c.UDP {
		sock, err := pn.Bind(net.IPv4(10, 0, 0, 9), 0)
		if err != nil {
			o.Failf("harness", "bind: %v", err)
			return
		}
		defer sock.Close()
		srv := &net.UDPAddr{IP: net.IPv4(10, 0, 0, 1), Port: 7000}
		send := func(spec refproto.SegSpec) {
			b, err := refproto.EncodeDatagram(key, freshNonce(), spec)
			if err == nil && len(b) <= 1500 {
				sock.WriteTo(b, srv)
			}
		}
		nextRecv := uint32(0)
		pending := map[uint32]*refproto.Segment{}
		closed := false
		pump := func(cond func() bool, deadline time.Time) bool {
			for !cond() {
				sock.SetReadDeadline(deadline)
				buf := make([]byte, 2000)
				n, _, err := sock.ReadFrom(buf)
				if err != nil {
					return false
				}
				raw := append([]byte(nil), buf[:n]...)
				seg, err := refproto.DecodeDatagram(raw, keys)
				if err != nil {
					continue
				}
				recordedDgrams = append(recordedDgrams, raw)
				if refproto.IsLE(seg.Meta.Proto) {
					sawLE = true
				}
				switch {
				case seg.Meta.Proto == refproto.OpenSessionResponse || refproto.IsData(seg.Meta.Proto):
					if seg.Meta.Seq >= nextRecv {
						pending[seg.Meta.Seq] = seg
					}
					for {
						s, ok := pending[nextRecv]
						if !ok {
							break
						}
						delete(pending, nextRecv)
						gotDown += int64(len(s.Payload))
						nextRecv++
					}
					send(refproto.SegSpec{Meta: refproto.Meta{Proto: refproto.AckClientToServer, Timestamp: minute(), SessionID: c.SID, UnAck: nextRecv, Window: 4096}, FixLengths: true})
				case seg.Meta.Proto == refproto.CloseSessionResponse || seg.Meta.Proto == refproto.CloseSessionRequest:
					closed = true
				}
			}
			return true
		}
		send(open)
		if !pump(func() bool { return nextRecv >= 1 }, time.Now().Add(10*time.Second)) {
			o.Inconclusive = "the genuine reference session did not open"
			return
		}
		seq, off := uint32(1), int64(0)
		for i, n := range c.Up {
			send(dataSpec(i, n, off, seq, nextRecv))
			seq++
			off += int64(n)
		}
		if !pump(func() bool { return gotDown >= wantDown }, time.Now().Add(20*time.Second)) {
			o.Inconclusive = fmt.Sprintf("the genuine reference session received %d of %d bytes", gotDown, wantDown)
			return
		}
		if !c.KeepOpen {
			send(closeSpec(seq))
			pump(func() bool { return closed }, time.Now().Add(3*time.Second))
		}
	} else {
		conn, err := sn.DialContext(nil, "tcp", "10.0.0.1:7000")
		if err != nil {
			o.Failf("harness", "dial: %v", err)
			return
		}
		defer conn.Close()
		enc := refproto.NewStreamEncoder(key, freshNonce())
		b, _ := enc.Encode(open)
		conn.Write(b)
		seq, off := uint32(1), int64(0)
		for i, n := range c.Up {
			b, err := enc.Encode(dataSpec(i, n, off, seq, 0))
			if err != nil {
				o.Failf("harness", "reference encoder: %v", err)
				return
			}
			conn.Write(b)
			seq++
			off += int64(n)
		}
		dec := refproto.NewStreamDecoder(keys)
		var rbuf []byte
		consumed := 0
		deadline := time.Now().Add(20 * time.Second)
		for gotDown < wantDown {
			seg, n, err := dec.Next(rbuf)
			if err == refproto.ErrNeedMore {
				conn.SetReadDeadline(deadline)
				tmp := make([]byte, 65536)
				k, rerr := conn.Read(tmp)
				rbuf = append(rbuf, tmp[:k]...)
				recordedStream = append(recordedStream, tmp[:k]...)
				if rerr != nil && k == 0 {
					o.Inconclusive = fmt.Sprintf("the genuine reference session received %d of %d bytes: %v", gotDown, wantDown, rerr)
					return
				}
				continue
			}
			if err != nil {
				o.Inconclusive = "the genuine reference session could not decode the server: " + err.Error()
				return
			}
			rbuf = rbuf[n:]
			consumed += n
			segEnds = append(segEnds, consumed)
			if refproto.IsLE(seg.Meta.Proto) {
				sawLE = true
			}
			gotDown += int64(len(seg.Payload))
		}
		if !c.KeepOpen {
			b, _ := enc.Encode(closeSpec(seq))
			conn.Write(b)
			time.Sleep(20 * time.Millisecond)
			conn.Close()
		}
	}
	select {
	case err := <-appErr:
		if err != nil {
			o.Inconclusive = "genuine exchange: " + err.Error()
			return
		}
	case <-time.After(20 * time.Second):
		o.Inconclusive = "genuine exchange: server application did not finish"
		return
	}
	if c.Late {
		time.Sleep(6500 * time.Millisecond)
	}
	genuineAccepts := env.Accepts()

	// --- the party without a credential sends the recorded server output back ---
	var probeLinks []*simnet.Link
	var probeAddrs []string
	sentBytes := 0
	for i := 0; i < c.Times; i++ {
		if c.UDP {
			sock, err := pn.Bind(net.IPv4(10, 66, 1, byte(i+1)), 0)
			if err != nil {
				o.Failf("harness", "bind: %v", err)
				return
			}
			defer sock.Close()
			probeAddrs = append(probeAddrs, sock.LocalAddr().String())
			which := recordedDgrams
			if c.Which >= 0 && len(recordedDgrams) > 0 {
				k := c.Which % len(recordedDgrams)
				which = recordedDgrams[k : k+1]
			}
			for _, d := range which {
				sock.WriteTo(d, &net.UDPAddr{IP: net.IPv4(10, 0, 0, 1), Port: 7000})
				sentBytes += len(d)
			}
		} else {
			conn, link, err := sn.DialLinkFrom("10.0.0.1:7000", net.IPv4(10, 66, 1, byte(i+1)))
			if err != nil {
				o.Failf("harness", "dial: %v", err)
				return
			}
			defer conn.Close()
			probeLinks = append(probeLinks, link)
			cp := recordedStream
			if c.Which >= 0 && len(segEnds) > 0 {
				cp = recordedStream[:segEnds[c.Which%len(segEnds)]]
			}
			conn.SetWriteDeadline(time.Now().Add(2 * time.Second))
			conn.Write(cp)
			sentBytes += len(cp)
		}
	}
	time.Sleep(150 * time.Millisecond)
	o.NonTrivial = sentBytes > 0
	o.Label("udp=%v", c.UDP)
	o.Label("lowEntropyFromServer=%v", sawLE)
	o.Label("keepOpen=%v", c.KeepOpen)
	o.Label("afterCleanup=%v", c.Late)
	check := func(when string) bool {
		for _, l := range probeLinks {
			if n := l.BytesS2C(); n != 0 {
				o.Failf("reflect-reply-tcp", "%s: the server wrote %d bytes to a connection that only presented bytes the server itself had sent to a genuine client", when, n)
				return false
			}
		}
		dgrams, _ := pn.Snapshot()
		for _, d := range dgrams {
			for _, a := range probeAddrs {
				if d.To.String() == a {
					o.Failf("reflect-reply-udp", "%s: the server sent a %d-byte datagram to %s, which only presented datagrams the server itself had sent to a genuine client (low entropy from server: %v)", when, len(d.Data), a, sawLE)
					return false
				}
			}
		}
		if got := env.Accepts(); got > genuineAccepts {
			o.Failf("reflect-session", "%s: Server.Accept delivered %d proxy connections, only %d genuine", when, got, genuineAccepts)
			return false
		}
		return true
	}
	if !check("at quiescence") {
		return
	}
	env.StopBounded(3 * time.Second)
	check("after teardown")
	return
}

func TestC05Reflect(t *testing.T) {
	pbt.Run(t, "C05", "reflect", genReflect, propReflect)
}
