// C03 — graceful close never turns a partial transfer into a clean
// end-of-stream. See DESIGN.md section 3.3.
package c03

import (
	"context"
	"fmt"
	"io"
	"net"
	"sync"
	"testing"
	"time"

	"pgregory.net/rapid"

	"verif/harness/e2e"
	"verif/harness/pbt"
	"verif/harness/refproto"
	"verif/harness/simnet"
)

type Case struct {
	UDP          bool            `json:"udp,omitempty"`
	ServerWrites bool            `json:"serverWrites,omitempty"` // the closing writer is the server application
	NoWait       bool            `json:"noWait,omitempty"`
	RawClient    bool            `json:"rawClient,omitempty"` // the client application sits on the session layer and never reads unless the case makes it (see e2e.Config.RawClient)
	Writes       []int           `json:"writes"`
	CloseDelayMs int             `json:"closeDelayMs,omitempty"`
	ReaderLagMs  int             `json:"readerLagMs,omitempty"` // reader starts this late (back-pressure, closer's 1 s grace)
	ReadBuf      int             `json:"readBuf"`
	ReaderWrites int             `json:"readerWrites,omitempty"` // bytes the reader side writes in the other direction meanwhile
	ClientPat    e2e.PatternSpec `json:"clientPattern"`
	ServerPat    e2e.PatternSpec `json:"serverPattern"`
	MTU          int             `json:"mtu,omitempty"`
	// TCP
	Chunks []int `json:"chunks,omitempty"`
	Buf    int   `json:"buf,omitempty"`
	// UDP faults around close time
	DropTailData  int    `json:"dropTailData,omitempty"`  // drop the first transmission of the last k data segments
	DelayTailMs   int    `json:"delayTailMs,omitempty"`   // delay the last data segment (close request overtakes it)
	DropClose     int    `json:"dropClose,omitempty"`     // drop the first k transmissions of the close request
	DupClose      bool   `json:"dupClose,omitempty"`      // duplicate the close request
	BackgroundPct int    `json:"backgroundPct,omitempty"` // background loss in the writer's direction (percent)
	DropAcksMs    int    `json:"dropAcksMs,omitempty"`    // drop every ack travelling towards the writer during the first N ms
	LatencyMs     int    `json:"latencyMs,omitempty"`     // one-way latency of the (otherwise perfect, FIFO) path
	// LateReader: the reader starts 6.5 s after the writer closed - after the
	// receiving underlay's 5 s session clean-up, which other traffic on the same
	// underlay (a second, multiplexed session opened at 5.3 s) gives the chance to run
	LateReader bool `json:"lateReader,omitempty"`
	// StallMs > 0 (TCP): the path stops delivering right before the writer's
	// writes and resumes that much later (longer than the closer's one-second
	// grace); the link buffer is small, so the writer's end is blocked in the
	// connection's Write while further writes and Close arrive
	StallMs int `json:"stallMs,omitempty"`
	// StopAfterClose: as soon as Close has returned, the writer's whole endpoint
	// is stopped (the program exits): its transport connection ends right behind
	// the graceful close
	StopAfterClose bool `json:"stopAfterClose,omitempty"`
	Seed          uint64 `json:"seed"`
	Salt          uint64 `json:"salt"`
}

var sizes = []int{0, 1, 5, 100, 1023, 1024, 1025, 1300, 1400, 3000, 10000, 32768, 65536, 100000}

func genCase(t *rapid.T) Case {
	var c Case
	c.UDP = rapid.Bool().Draw(t, "udp")
	c.ServerWrites = rapid.Bool().Draw(t, "serverWrites")
	c.NoWait = rapid.IntRange(0, 3).Draw(t, "noWait") == 0
	if rapid.IntRange(0, 2).Draw(t, "rawClient") == 0 {
		c.RawClient, c.NoWait = true, true
	}
	n := rapid.IntRange(1, 4).Draw(t, "nWrites")
	tot := 0
	for i := 0; i < n; i++ {
		w := rapid.SampledFrom(sizes).Draw(t, "w")
		if pbt.Thorough() && rapid.IntRange(0, 15).Draw(t, "bigw") == 0 {
			w = 1 << 20
		}
		if c.UDP && tot+w > 150000 {
			w = 150000 - tot
		}
		tot += w
		c.Writes = append(c.Writes, w)
	}
	c.CloseDelayMs = rapid.SampledFrom([]int{0, 0, 0, 1, 5}).Draw(t, "closeDelay")
	c.ReaderLagMs = rapid.SampledFrom([]int{0, 0, 0, 20, 300, 1500}).Draw(t, "readerLag")
	c.ReadBuf = rapid.SampledFrom([]int{1, 7, 100, 1500, 32768, 65536}).Draw(t, "readBuf")
	if tot > 20000 && c.ReadBuf < 100 {
		c.ReadBuf = 100
	}
	c.ReaderWrites = rapid.SampledFrom([]int{0, 0, 100, 5000}).Draw(t, "readerWrites")
	if rapid.IntRange(0, 11).Draw(t, "lateReader") == 0 {
		c.LateReader, c.ReaderLagMs = true, 6500
		// what the receiver has to hold unread: within the first UDP window
		for i := range c.Writes {
			if c.Writes[i] > 4000 {
				c.Writes[i] = 4000
			}
		}
	}
	c.StopAfterClose = rapid.IntRange(0, 3).Draw(t, "stopAfterClose") == 0
	c.ClientPat = e2e.GenPattern(t, "cp", 2)
	c.ServerPat = e2e.GenPattern(t, "sp", 2)
	c.Seed = rapid.Uint64().Draw(t, "seed")
	c.Salt = rapid.Uint64().Draw(t, "salt")
	if c.UDP {
		c.MTU = rapid.SampledFrom([]int{0, 1280, 1500}).Draw(t, "mtu")
		fc := rapid.IntRange(0, 6).Draw(t, "faultClass")
		if c.LateReader {
			fc = 0
		}
		switch fc {
		case 0: // fault free
		case 6: // fault free with a wide-area round-trip time
			c.LatencyMs = rapid.SampledFrom([]int{10, 50, 100, 150}).Draw(t, "latencyMs")
		case 1:
			c.DropTailData = rapid.IntRange(1, 3).Draw(t, "dropTail")
		case 2:
			c.DelayTailMs = rapid.SampledFrom([]int{5, 50, 300}).Draw(t, "delayTail")
		case 3:
			c.DropClose = rapid.IntRange(1, 2).Draw(t, "dropClose")
			c.DupClose = rapid.Bool().Draw(t, "dupClose")
		case 4:
			c.BackgroundPct = rapid.SampledFrom([]int{5, 15}).Draw(t, "background")
			if rapid.IntRange(0, 3).Draw(t, "ackBlackout") == 0 {
				c.DropAcksMs = rapid.SampledFrom([]int{200, 3000}).Draw(t, "dropAcksMs")
			}
		default:
			c.DupClose = true
			c.DropTailData = rapid.IntRange(0, 1).Draw(t, "dropTail2")
			c.DropClose = rapid.IntRange(0, 1).Draw(t, "dropClose2")
		}
	} else {
		k := rapid.IntRange(0, 3).Draw(t, "nChunks")
		for i := 0; i < k; i++ {
			c.Chunks = append(c.Chunks, rapid.SampledFrom([]int{1, 24, 72, 1000, 4096, 0}).Draw(t, "chunk"))
		}
		c.Buf = rapid.SampledFrom([]int{0, 100, 4096, 65536}).Draw(t, "buf")
		if tot > 50000 {
			for i := range c.Chunks {
				if c.Chunks[i] > 0 && c.Chunks[i] < 1000 {
					c.Chunks[i] = 1000
				}
			}
			if c.Buf > 0 && c.Buf < 4096 {
				c.Buf = 4096
			}
		}
		if !c.LateReader && rapid.IntRange(0, 5).Draw(t, "stall") == 0 {
			c.StallMs = rapid.SampledFrom([]int{1500, 2500, 4000}).Draw(t, "stallMs")
			c.NoWait, c.RawClient = false, false // the connection is established before the path stalls
			c.Buf = rapid.SampledFrom([]int{100, 4096}).Draw(t, "stallBuf")
			c.Chunks = nil
			c.ReaderLagMs = 0
			if len(c.Writes) < 2 {
				c.Writes = append(c.Writes, rapid.SampledFrom([]int{1, 100, 8000}).Draw(t, "stallSecondWrite"))
			}
			if c.Writes[0] < 8000 {
				c.Writes[0] = 8000 // more than the link buffer holds: the first segment blocks in the network
			}
		}
	}
	return c
}

func total(ws []int) int64 {
	var n int64
	for _, w := range ws {
		n += int64(w)
	}
	return n
}

func prop(c Case) (o pbt.Outcome) {
	mux := 0
	if c.LateReader {
		mux = 4
	}
	cfg := e2e.Config{UDP: c.UDP, NoWait: c.NoWait, RawClient: c.RawClient, Multiplex: mux, ClientPattern: c.ClientPat, ServerPattern: c.ServerPat, ClientMTU: c.MTU, ServerMTU: c.MTU}
	sn := simnet.NewStreamNet(simnet.StreamOpts{ChunksC2S: c.Chunks, ChunksS2C: c.Chunks, BufC2S: c.Buf, BufS2C: c.Buf})
	pn := simnet.NewPacketNet()
	W := total(c.Writes)
	// stream prefix that precedes the application data in the writer's direction
	prefix := int64(10) // SOCKS5 response
	if !c.ServerWrites {
		prefix = int64(e2e.Socks5RequestLen(0))
	}
	writerFromClient := !c.ServerWrites

	// UDP fault plan around the close
	var mu sync.Mutex
	faultOnData := false
	closeSeen := 0
	dataUnacked := false
	unsentAtClose := false
	var closeReqAt time.Time
	var wireNotes []string
	if c.UDP {
		pn.Latency = time.Duration(c.LatencyMs) * time.Millisecond
		tStart := time.Now()
		keys, _ := e2e.KeysFor(e2e.DefaultUsers, tStart)
		firstSeen := map[uint32]bool{}
		txCount := map[uint32]int{}
		var cum int64
		tailSeqs := map[uint32]bool{}
		var highestAckFromReader uint32
		var highestDataSeq uint32
		prf := func(i int) uint64 {
			x := c.Seed + uint64(i)*0x9E3779B97F4A7C15
			x ^= x >> 31
			x *= 0xbf58476d1ce4e5b9
			x ^= x >> 29
			return x
		}
		dropped := map[uint32]int{}
		faulted := map[uint32]bool{}
		pn.SetFault(func(d *simnet.Datagram) simnet.Fate {
			seg, err := refproto.DecodeDatagram(d.Data, keys)
			if err != nil {
				keys, _ = e2e.KeysFor(e2e.DefaultUsers, tStart, time.Now())
				if seg, err = refproto.DecodeDatagram(d.Data, keys); err != nil {
					return simnet.Fate{}
				}
			}
			fromClient := d.From.Port != 7000
			mu.Lock()
			defer mu.Unlock()
			m := seg.Meta
			if fromClient != writerFromClient {
				// reader -> writer direction
				if c.DropAcksMs > 0 && refproto.IsAck(m.Proto) && cum > prefix && time.Since(tStart) < time.Duration(c.DropAcksMs)*time.Millisecond {
					return simnet.Fate{Drop: true}
				}
				// remember what it acknowledged
				if refproto.IsDataAck(m.Proto) && m.UnAck > highestAckFromReader {
					highestAckFromReader = m.UnAck
				}
				return simnet.Fate{}
			}
			// writer -> reader direction
			if m.Proto == refproto.CloseSessionRequest {
				closeSeen++
				if closeSeen == 1 {
					closeReqAt = time.Now()
				}
				if closeSeen == 1 && highestDataSeq+1 > highestAckFromReader && cum > 0 {
					dataUnacked = true
				}
				if closeSeen == 1 {
					// a data fault matters only if the faulted segment was still
					// unacknowledged when the close request left
					for sq := range faulted {
						if sq >= highestAckFromReader {
							faultOnData = true
						}
					}
				}
				if closeSeen == 1 && cum < prefix+W {
					// the close request leaves although part of the written data has
					// not been transmitted even once (the closer's 1 s grace expired)
					unsentAtClose = true
					wireNotes = append(wireNotes, fmt.Sprintf("close request sent when only %d of %d stream bytes had been transmitted", cum, prefix+W))
				}
				if closeSeen <= c.DropClose {
					wireNotes = append(wireNotes, "drop close request")
					return simnet.Fate{Drop: true}
				}
				if c.DupClose && closeSeen == c.DropClose+1 {
					return simnet.Fate{Dup: 1, DupGap: 2 * time.Millisecond}
				}
				return simnet.Fate{}
			}
			if len(seg.Payload) == 0 || !(refproto.IsData(m.Proto) || m.Proto == refproto.OpenSessionRequest || m.Proto == refproto.OpenSessionResponse) {
				return simnet.Fate{}
			}
			if m.Seq > highestDataSeq {
				highestDataSeq = m.Seq
			}
			txCount[m.Seq]++
			if !firstSeen[m.Seq] {
				firstSeen[m.Seq] = true
				before := cum
				cum += int64(len(seg.Payload))
				// is this one of the last k data segments? estimate with the largest possible fragment
				k := c.DropTailData
				if c.DelayTailMs > 0 && k == 0 {
					k = 1
				}
				if k > 0 && W > 0 && cum > prefix && (prefix+W)-before <= int64(k*1400) {
					tailSeqs[m.Seq] = true
				}
			}
			if tailSeqs[m.Seq] && txCount[m.Seq] == 1 && m.Seq > 2 {
				if c.DropTailData > 0 {
					faulted[m.Seq] = true
					wireNotes = append(wireNotes, fmt.Sprintf("drop first tx of tail data seq %d", m.Seq))
					return simnet.Fate{Drop: true}
				}
				if c.DelayTailMs > 0 {
					faulted[m.Seq] = true
					wireNotes = append(wireNotes, fmt.Sprintf("delay tail data seq %d by %d ms", m.Seq, c.DelayTailMs))
					return simnet.Fate{Delay: time.Duration(c.DelayTailMs) * time.Millisecond}
				}
			}
			if c.BackgroundPct > 0 && m.Seq > 2 && dropped[m.Seq] < 2 && int(prf(d.Idx)%100) < c.BackgroundPct {
				dropped[m.Seq]++
				faulted[m.Seq] = true
				wireNotes = append(wireNotes, fmt.Sprintf("background drop of data seq %d", m.Seq))
				return simnet.Fate{Drop: true}
			}
			return simnet.Fate{}
		})
	}

	env, err := e2e.Start(cfg, sn, pn)
	if err != nil {
		o.Failf("start", "valid configuration did not start: %v", err)
		return
	}
	defer env.StopBounded(3 * time.Second)

	ctx, cancel := context.WithTimeout(context.Background(), 30*time.Second)
	defer cancel()
	cconn, err := env.Dial(ctx, 0)
	if err != nil {
		o.Inconclusive = "dial failed: " + err.Error()
		return
	}
	defer cconn.Close()
	key := e2e.StreamKey(c.Salt, 0, 0)
	backKey := e2e.StreamKey(c.Salt, 0, 1)

	var sconn net.Conn
	getServer := func() error {
		sc, err := env.ServerSide(0, 20*time.Second)
		if err != nil {
			return err
		}
		sconn = sc.Conn
		return nil
	}
	if c.NoWait {
		// the client must write first in 0-RTT mode
		first := []byte{}
		if !c.ServerWrites && len(c.Writes) > 0 {
			// handled by the writer below
		}
		if c.ServerWrites {
			if _, err := cconn.Write(first); err != nil {
				o.Inconclusive = "0-RTT first write failed: " + err.Error()
				return
			}
		}
	}

	var writer, reader net.Conn
	type rres struct {
		n        int64
		err      error
		mismatch string
	}
	readerDone := make(chan rres, 1)
	runReader := func(conn net.Conn) {
		if c.ReaderLagMs > 0 {
			time.Sleep(time.Duration(c.ReaderLagMs) * time.Millisecond)
		}
		var r rres
		buf := make([]byte, c.ReadBuf)
		deadline := time.Now().Add(40 * time.Second)
		for time.Now().Before(deadline) {
			n, err := conn.Read(buf)
			for i := 0; i < n; i++ {
				if r.n+int64(i) >= W || buf[i] != e2e.PRFByte(key, r.n+int64(i)) {
					r.mismatch = fmt.Sprintf("byte at offset %d is not what was written (or lies beyond the %d bytes written)", r.n+int64(i), W)
					readerDone <- r
					return
				}
			}
			r.n += int64(n)
			if err != nil {
				if e2e.IsTimeout(err) {
					continue
				}
				r.err = err
				readerDone <- r
				return
			}
		}
		r.err = fmt.Errorf("harness: reader gave up after 40 s")
		readerDone <- r
	}

	var written int64
	var writeErr error
	doWrites := func(conn net.Conn) {
		var off int64
		for _, w := range c.Writes {
			p := make([]byte, w)
			e2e.PRFFill(key, off, p)
			n, err := conn.Write(p)
			for i := range p { // the caller re-uses its buffer (net.Conn: Write must not retain p)
				p[i] = 0xA5
			}
			off += int64(n)
			if err != nil {
				writeErr = err
				break
			}
		}
		written = off
	}

	if c.StallMs > 0 && !c.UDP {
		if err := getServer(); err != nil {
			o.Inconclusive = "server side did not appear: " + err.Error()
			return
		}
		writer, reader = cconn, sconn
		if c.ServerWrites {
			writer, reader = sconn, cconn
		}
		go runReader(reader)
		for _, l := range sn.Links() {
			l.Freeze(true)
		}
		unfreeze := time.AfterFunc(time.Duration(c.StallMs)*time.Millisecond, func() {
			for _, l := range sn.Links() {
				l.Freeze(false)
			}
		})
		defer unfreeze.Stop()
		defer func() {
			for _, l := range sn.Links() {
				l.Freeze(false)
			}
		}()
		doWrites(writer)
		o.Label("tcpStall")
	} else if !c.ServerWrites {
		writer = cconn
		// client writes (first write also performs the 0-RTT handshake), server reads
		srvReady := make(chan error, 1)
		go func() { srvReady <- getServer() }()
		wdone := make(chan struct{})
		go func() { doWrites(writer); close(wdone) }()
		if err := <-srvReady; err != nil {
			o.Inconclusive = "server side did not appear: " + err.Error()
			return
		}
		reader = sconn
		go runReader(reader)
		<-wdone
	} else {
		if err := getServer(); err != nil {
			o.Inconclusive = "server side did not appear: " + err.Error()
			return
		}
		writer, reader = sconn, cconn
		go runReader(reader)
		doWrites(writer)
	}
	// the reader side may write in the other direction meanwhile
	if c.ReaderWrites > 0 {
		go func() {
			p := make([]byte, c.ReaderWrites)
			e2e.PRFFill(backKey, 0, p)
			reader.Write(p)
		}()
	}
	if writeErr != nil {
		o.Inconclusive = fmt.Sprintf("a write failed before Close (%v); the property speaks about successful writes", writeErr)
		// still wait for the reader so goroutines end
		writer.Close()
		<-readerDone
		return
	}
	if c.CloseDelayMs > 0 {
		time.Sleep(time.Duration(c.CloseDelayMs) * time.Millisecond)
	}
	closeStart := time.Now()
	writer.Close()
	closeTook := time.Since(closeStart)
	if c.StopAfterClose && !c.LateReader && !c.UDP { // on UDP a stopped writer whose close request is lost leaves the reader to its idle timeout
		if c.ServerWrites {
			go env.Server.Stop()
		} else {
			go env.StopClient()
		}
		o.Label("stopAfterClose")
	}
	if c.LateReader {
		// other traffic on the same underlays once the clean-up tick has passed
		go func() {
			time.Sleep(5300 * time.Millisecond)
			ctx2, cancel2 := context.WithTimeout(context.Background(), 5*time.Second)
			defer cancel2()
			pc, err := env.Dial(ctx2, 1)
			if err != nil {
				return
			}
			defer pc.Close()
			pc.Write([]byte{1})
			if sc2, err := env.ServerSide(1, 5*time.Second); err == nil {
				sc2.Conn.Write([]byte{2})
				one := make([]byte, 1)
				pc.SetReadDeadline(time.Now().Add(2 * time.Second))
				pc.Read(one)
				sc2.Conn.Close()
			}
		}()
	}
	r := <-readerDone
	reader.Close()

	mu.Lock()
	fOnData, unacked, unsent, notes := faultOnData, dataUnacked, unsentAtClose, append([]string(nil), wireNotes...)
	// how long Close waited before its close request left
	grace := time.Duration(-1)
	if !closeReqAt.IsZero() {
		grace = closeReqAt.Sub(closeStart)
	}
	mu.Unlock()
	o.Obs = map[string]any{"written": written, "read": r.n, "readerErr": fmt.Sprint(r.err), "closeTookMs": closeTook.Milliseconds(), "closeRequestLeftAfterMs": grace.Milliseconds(), "wire": notes}
	o.Label("latency=%v", c.LatencyMs > 0)
	o.Label("rawClient=%v", c.RawClient)
	o.Label("readerAfterCleanup=%v", c.LateReader)
	o.Label("udp=%v", c.UDP)
	o.Label("serverWrites=%v", c.ServerWrites)
	o.Label("faultOnData=%v", fOnData)
	o.Label("lag=%v", c.ReaderLagMs > 0)
	o.Label("unsentAtClose=%v", unsent)
	switch {
	case r.err == io.EOF && r.n == W:
		o.Label("outcome=complete")
	case r.err == io.EOF:
		o.Label("outcome=truncated-eof")
	default:
		o.Label("outcome=error")
	}
	if c.UDP {
		o.NonTrivial = W > 0 && (unacked || fOnData)
	} else {
		o.NonTrivial = W > 0 && (c.ReaderLagMs > 0 || len(c.Chunks) > 0 || c.Buf > 0 || W > 32768 || c.StallMs > 0)
	}
	if r.mismatch != "" {
		o.Failf("data", "reader: %s", r.mismatch)
		return
	}
	if r.err == io.EOF && r.n < W {
		sig := "truncated-eof"
		if c.UDP && fOnData {
			sig = "udp+data-lost-or-overtaken-before-close"
		} else if c.UDP && unsent && grace >= 900*time.Millisecond {
			// the known behaviour: Close gave its send queue the full one-second grace
			sig = "udp+close-request-sent-before-all-data-was-transmitted"
		} else if c.UDP && unsent {
			sig = "udp+close-request-sent-within-the-grace-period-with-data-untransmitted"
		} else if c.UDP {
			sig = "udp+truncated-eof-without-data-fault"
		} else {
			sig = "tcp+truncated-eof"
		}
		o.Failf(sig, "the writer's %d bytes were written successfully and it then closed; the peer read %d bytes and then a clean end-of-stream (udp=%v serverWrites=%v wire=%v)", W, r.n, c.UDP, c.ServerWrites, notes)
	}
	return
}

func TestC03(t *testing.T) {
	pbt.Run(t, "C03", "close", genCase, prop)
}
