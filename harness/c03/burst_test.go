package c03

import (
	"context"
	"fmt"
	"io"
	"sync"
	"testing"
	"time"

	"pgregory.net/rapid"

	"verif/harness/e2e"
	"verif/harness/pbt"
	"verif/harness/simnet"
)

// (burst) many short-lived connections at once: each writer writes a little
// and closes at once while its reader is already blocked in Read. The data and
// the close request reach the reading session back to back; with the
// scheduler busy the reader wakes up to find both "data is there" and "the
// session is closed" true at the same time. Whatever it picks, a clean EOF
// must not come before the bytes. Same oracle as the close sub-check; the
// schedule is sampled by the number of connections, not owned.

type BurstCase struct {
	UDP          bool   `json:"udp,omitempty"`
	ServerWrites bool   `json:"serverWrites,omitempty"`
	N            int    `json:"n"`
	Sizes        []int  `json:"sizes"` // per connection (cycled): bytes written before Close
	Multiplex    int    `json:"multiplex"`
	ReadBuf      int    `json:"readBuf"`
	Salt         uint64 `json:"salt"`
}

func genBurst(t *rapid.T) BurstCase {
	c := BurstCase{
		UDP:          rapid.IntRange(0, 3).Draw(t, "udp") == 0,
		ServerWrites: rapid.Bool().Draw(t, "serverWrites"),
		N:            rapid.SampledFrom([]int{8, 24, 40, 64}).Draw(t, "n"),
		Multiplex:    rapid.SampledFrom([]int{1, 2, 4}).Draw(t, "multiplex"),
		ReadBuf:      rapid.SampledFrom([]int{64, 4096, 65536}).Draw(t, "readBuf"),
		Salt:         rapid.Uint64().Draw(t, "salt"),
	}
	for i := rapid.IntRange(1, 4).Draw(t, "nSizes"); i > 0; i-- {
		c.Sizes = append(c.Sizes, rapid.SampledFrom([]int{1, 100, 1000, 1400, 5000, 20000}).Draw(t, "size"))
	}
	return c
}

func propBurst(c BurstCase) (o pbt.Outcome) {
	cfg := e2e.Config{UDP: c.UDP, Multiplex: c.Multiplex}
	env, err := e2e.Start(cfg, simnet.NewStreamNet(simnet.StreamOpts{}), simnet.NewPacketNet())
	if err != nil {
		o.Failf("start", "start: %v", err)
		return
	}
	defer env.StopBounded(5 * time.Second)
	type result struct {
		n        int64
		err      error
		mismatch bool
		setup    string
	}
	res := make([]result, c.N)
	var wg sync.WaitGroup
	for i := 0; i < c.N; i++ {
		wg.Add(1)
		go func(i int) {
			defer wg.Done()
			W := int64(c.Sizes[i%len(c.Sizes)])
			ctx, cancel := context.WithTimeout(context.Background(), 30*time.Second)
			defer cancel()
			cc, err := env.Dial(ctx, i)
			if err != nil {
				res[i].setup = "dial: " + err.Error()
				return
			}
			defer cc.Close()
			sc, err := env.ServerSide(i, 20*time.Second)
			if err != nil {
				res[i].setup = "server side: " + err.Error()
				return
			}
			defer sc.Conn.Close()
			writer, reader := cc, sc.Conn
			if c.ServerWrites {
				writer, reader = sc.Conn, cc
			}
			key := e2e.StreamKey(c.Salt, i, 0)
			done := make(chan struct{})
			go func() {
				defer close(done)
				buf := make([]byte, c.ReadBuf)
				deadline := time.Now().Add(40 * time.Second)
				for time.Now().Before(deadline) {
					n, err := reader.Read(buf)
					for k := 0; k < n; k++ {
						if res[i].n+int64(k) >= W || buf[k] != e2e.PRFByte(key, res[i].n+int64(k)) {
							res[i].mismatch = true
						}
					}
					res[i].n += int64(n)
					if err != nil {
						if e2e.IsTimeout(err) {
							continue
						}
						res[i].err = err
						return
					}
				}
				res[i].err = fmt.Errorf("harness: reader gave up")
			}()
			time.Sleep(2 * time.Millisecond) // the reader is blocked in Read by now
			p := make([]byte, W)
			e2e.PRFFill(key, 0, p)
			if _, err := writer.Write(p); err != nil {
				res[i].setup = "write: " + err.Error()
				writer.Close()
				<-done
				return
			}
			writer.Close()
			<-done
		}(i)
	}
	wg.Wait()
	o.NonTrivial = c.N >= 24
	o.Label("udp=%v", c.UDP)
	o.Label("n=%d", c.N)
	o.Label("serverWrites=%v", c.ServerWrites)
	bad := 0
	for i, r := range res {
		W := int64(c.Sizes[i%len(c.Sizes)])
		if r.setup != "" {
			continue
		}
		if r.mismatch {
			o.Failf("burst/data", "connection %d of %d: the reader got bytes that were not written", i, c.N)
			return
		}
		if r.err == io.EOF && r.n < W {
			bad++
			sig := "burst/tcp+truncated-eof"
			if c.UDP {
				sig = "burst/udp+truncated-eof"
			}
			o.Failf(sig, "connection %d of %d concurrent short-lived connections: %d bytes were written successfully and the writer then closed; the reader, blocked in Read all along, read %d bytes and then a clean end-of-stream (udp=%v serverWrites=%v)", i, c.N, W, r.n, c.UDP, c.ServerWrites)
		}
	}
	if bad > 0 {
		o.Obs = map[string]any{"truncated": bad, "connections": c.N}
	}
	return
}

func TestC03Burst(t *testing.T) {
	pbt.Run(t, "C03", "burst", genBurst, propBurst)
}
