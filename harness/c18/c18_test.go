// C18 — UDP-associate tunnelling preserves datagram boundaries, contents and
// addressing. See DESIGN.md section 3.18.
package c18

import (
	"bytes"
	"context"
	"fmt"
	"io"
	"net"
	"sync"
	"testing"
	"time"

	apicommon "github.com/enfein/mieru/v3/apis/common"
	pb "github.com/enfein/mieru/v3/pkg/appctl/appctlpb"
	"github.com/enfein/mieru/v3/pkg/socks5"
	"google.golang.org/protobuf/proto"
	"pgregory.net/rapid"

	"verif/harness/e2e"
	"verif/harness/pbt"
	"verif/harness/refproto"
	"verif/harness/simnet"
)

// ---- (a)+(c) the tunnel over a chunked stream ---------------------------------

type Dgram struct {
	Len  int `json:"len"`
	Fill int `json:"fill"` // 0 PRF, 1 all 0x00, 2 all 0xff, 3 looks like a frame (00 len len ... ff)
}

type TunnelCase struct {
	Dgrams  []Dgram `json:"dgrams"`
	Chunks  []int   `json:"chunks,omitempty"`
	Buf     int     `json:"buf,omitempty"`
	ReadBuf int     `json:"readBuf"` // reader's buffer size
	// malformed stream (c): 0 none, 1 bad first marker, 2 bad trailer, 3 truncate at Cut, 4 frame longer than the reader's buffer,
	// 5 the writer is handed a datagram above the maximum (Over bytes) before datagram At: it must be refused with an error and leave the stream intact
	Malform int    `json:"malform,omitempty"`
	At      int    `json:"at,omitempty"` // which frame is malformed
	Cut     int    `json:"cut,omitempty"`
	Over    int    `json:"over,omitempty"`
	Salt    uint64 `json:"salt"`
}

var dgramSizes = []int{0, 1, 2, 3, 4, 5, 255, 256, 257, 1472, 65531, 65532, 65533, 65534, 65535}

func genTunnel(t *rapid.T) TunnelCase {
	var c TunnelCase
	n := rapid.IntRange(1, 8).Draw(t, "n")
	big := 0
	for i := 0; i < n; i++ {
		d := Dgram{Fill: rapid.SampledFrom([]int{0, 0, 1, 2, 3}).Draw(t, "fill")}
		if rapid.Bool().Draw(t, "edge") {
			d.Len = rapid.SampledFrom(dgramSizes).Draw(t, "len")
		} else {
			d.Len = rapid.IntRange(0, 3000).Draw(t, "lenU")
		}
		if d.Len > 60000 {
			big++
			if big > 2 {
				d.Len = 1472
			}
		}
		c.Dgrams = append(c.Dgrams, d)
	}
	k := rapid.IntRange(0, 4).Draw(t, "nChunks")
	for i := 0; i < k; i++ {
		c.Chunks = append(c.Chunks, rapid.SampledFrom([]int{1, 2, 3, 4, 5, 100, 4096, 0}).Draw(t, "chunk"))
	}
	if big > 0 {
		// one-byte chunks over 64 KiB datagrams only cost time
		for i := range c.Chunks {
			if c.Chunks[i] > 0 && c.Chunks[i] < 100 && i > 0 {
				c.Chunks[i] = 4096
			}
		}
	}
	c.Buf = rapid.SampledFrom([]int{0, 1, 4, 100, 65536}).Draw(t, "buf")
	c.ReadBuf = 65535
	c.Malform = rapid.SampledFrom([]int{0, 0, 0, 1, 2, 3, 4, 5}).Draw(t, "malform")
	c.Over = rapid.SampledFrom([]int{65536, 65537, 65791, 70000, 131071, 131072}).Draw(t, "over")
	c.At = rapid.IntRange(0, n-1).Draw(t, "at")
	c.Cut = rapid.IntRange(0, 70000).Draw(t, "cut")
	if c.Malform == 4 {
		c.ReadBuf = rapid.SampledFrom([]int{0, 1, 100, 1472}).Draw(t, "smallReadBuf")
	}
	c.Salt = rapid.Uint64().Draw(t, "salt")
	return c
}

func payload(d Dgram, salt uint64, i int) []byte {
	p := make([]byte, d.Len)
	switch d.Fill {
	case 1:
	case 2:
		for j := range p {
			p[j] = 0xff
		}
	case 3:
		e2e.PRFFill(salt+uint64(i), 0, p)
		// make the content look like frames: 00 hi lo ... ff
		for j := 0; j+4 <= len(p); j += 7 {
			p[j], p[j+1], p[j+2], p[j+3] = 0x00, 0x00, 0x03, 0xff
		}
	default:
		e2e.PRFFill(salt+uint64(i), 0, p)
	}
	return p
}

func propTunnel(c TunnelCase) (o pbt.Outcome) {
	sn := simnet.NewStreamNet(simnet.StreamOpts{ChunksC2S: c.Chunks, BufC2S: c.Buf})
	ln, _ := sn.Listen(context.Background(), "tcp", "10.0.0.1:9")
	defer ln.Close()
	wconn, err := sn.DialContext(context.Background(), "tcp", "10.0.0.1:9")
	if err != nil {
		o.Failf("harness", "dial: %v", err)
		return
	}
	rconn, _ := ln.Accept()
	defer rconn.Close()
	var want [][]byte
	for i, d := range c.Dgrams {
		want = append(want, payload(d, c.Salt, i))
	}
	headerCut := false
	for _, ch := range c.Chunks {
		if ch > 0 && ch < 4 {
			headerCut = true
		}
	}
	markers := false
	for _, d := range c.Dgrams {
		if d.Fill != 0 && d.Len > 0 {
			markers = true
		}
	}
	o.NonTrivial = headerCut || markers || c.Malform != 0
	o.Label("malform=%d", c.Malform)
	o.Label("headerCut=%v", headerCut)
	o.Label("n=%d", len(c.Dgrams))

	// writer: either the real tunnel (well-formed) or a hand-built stream (malformed)
	type overRes struct {
		n   int
		err error
	}
	overCh := make(chan overRes, 1)
	go func() {
		defer wconn.Close()
		if c.Malform == 0 || c.Malform == 4 || c.Malform == 5 {
			tun := apicommon.NewPacketOverStreamTunnel(wconn)
			for i, p := range want {
				if c.Malform == 5 && i == c.At {
					n, err := tun.Write(make([]byte, c.Over))
					overCh <- overRes{n, err}
				}
				if _, err := tun.Write(p); err != nil {
					return
				}
			}
			return
		}
		var stream []byte
		cutAt := -1
		for i, p := range want {
			f := refproto.FrameUDPAssociate(p)
			if i == c.At {
				switch c.Malform {
				case 1:
					f[0] = 0x01
				case 2:
					f[len(f)-1] = 0xfe
				case 3:
					cutAt = len(stream) + c.Cut%len(f)
				}
			}
			stream = append(stream, f...)
		}
		if cutAt >= 0 {
			stream = stream[:cutAt]
		}
		wconn.Write(stream)
	}()

	tun := apicommon.NewPacketOverStreamTunnel(rconn)
	buf := make([]byte, c.ReadBuf)
	var got [][]byte
	var rerr error
	for {
		rconn.SetReadDeadline(time.Now().Add(20 * time.Second))
		n, err := tun.Read(buf)
		if err != nil {
			rerr = err
			break // after an error callers stop reading
		}
		got = append(got, append([]byte(nil), buf[:n]...))
		if len(got) > len(want)+2 {
			break
		}
	}
	if c.Malform == 5 {
		select {
		case r := <-overCh:
			if r.err == nil {
				o.Failf("oversized-write", "Write of a %d-byte datagram (maximum 65535) returned n=%d without an error; the reader then saw %d of %d datagrams (error: %v)", c.Over, r.n, len(got), len(want), rerr)
				return
			}
		case <-time.After(5 * time.Second):
			o.Failf("harness", "writer did not reach the oversized datagram")
			return
		}
	}
	// every datagram delivered before the error must be exactly the one sent
	// at that position
	for i, g := range got {
		if i >= len(want) {
			o.Failf("extra", "the tunnel delivered %d datagrams, only %d were sent", len(got), len(want))
			return
		}
		if !bytes.Equal(g, want[i]) {
			o.Failf("content", "datagram %d: %d bytes sent, %d bytes delivered, equal=%v (malform=%d at=%d)", i, len(want[i]), len(g), bytes.Equal(g, want[i]), c.Malform, c.At)
			return
		}
	}
	expectGood := len(want)
	switch c.Malform {
	case 1, 2, 3:
		expectGood = c.At
	case 4:
		expectGood = len(want)
		for i, w := range want {
			if len(w) > c.ReadBuf {
				expectGood = i
				break
			}
		}
	}
	if len(got) < expectGood {
		o.Failf("dropped", "only %d of the first %d well-formed datagrams were delivered before %v", len(got), expectGood, rerr)
		return
	}
	if len(got) > expectGood {
		o.Failf("desync", "a malformed or oversized frame at position %d was not reported: %d datagrams delivered, error %v", expectGood, len(got), rerr)
		return
	}
	if c.Malform != 0 && expectGood < len(want) && (rerr == nil) {
		o.Failf("desync", "framing violation at frame %d was not reported as an error", c.At)
		return
	}
	if expectGood == len(want) && rerr != io.EOF && rerr != nil && !e2e.IsTimeout(rerr) {
		// after the last frame the writer closes: EOF expected
		o.Failf("error", "well-formed stream ended with %v instead of EOF", rerr)
	}
	return
}

func TestC18Tunnel(t *testing.T) {
	pbt.Run(t, "C18", "tunnel", genTunnel, propTunnel)
}

// ---- (b) the full relay path ----------------------------------------------------

type RelayDgram struct {
	Dest int `json:"dest"` // index into the destination table
	Len  int `json:"len"`
	Fill int `json:"fill"`
}

type RelayCase struct {
	Dgrams []RelayDgram `json:"dgrams"`
	Chunks []int        `json:"chunks,omitempty"`
	Salt   uint64       `json:"salt"`
	// Dgram: the association is served by socks5.Server in RFC 1928 datagram
	// mode (the application's datagrams go to the relay's UDP port directly)
	// instead of BidiCopyUDP + tunnel + RunUDPAssociateLoop.
	Dgram bool `json:"dgram,omitempty"`
	// Intruder > 0 (C11, sub-check assoc): after the application's datagram
	// number Intruder has been answered, another local party sends one
	// well-formed SOCKS5 UDP datagram to the association's port from its own socket
	Intruder int `json:"intruder,omitempty"`
}

func genRelay(t *rapid.T) RelayCase {
	var c RelayCase
	n := rapid.IntRange(1, 10).Draw(t, "n")
	for i := 0; i < n; i++ {
		c.Dgrams = append(c.Dgrams, RelayDgram{
			Dest: rapid.IntRange(0, 4).Draw(t, "dest"),
			Len:  rapid.SampledFrom([]int{0, 1, 3, 4, 255, 256, 1472, 8000, 30000, 60000}).Draw(t, "len"),
			Fill: rapid.SampledFrom([]int{0, 0, 1, 2, 3}).Draw(t, "fill"),
		})
	}
	k := rapid.IntRange(0, 3).Draw(t, "nChunks")
	for i := 0; i < k; i++ {
		c.Chunks = append(c.Chunks, rapid.SampledFrom([]int{1, 2, 3, 100, 4096, 0}).Draw(t, "chunk"))
	}
	c.Salt = rapid.Uint64().Draw(t, "salt")
	c.Dgram = rapid.IntRange(0, 3).Draw(t, "dgram") == 0
	return c
}

type userConn struct {
	net.Conn
	user string
}

func (u *userConn) UserName() string { return u.user }

type mapResolver map[string]net.IP

func (r mapResolver) LookupIP(ctx context.Context, network, host string) ([]net.IP, error) {
	if ip, ok := r[host]; ok {
		return []net.IP{ip}, nil
	}
	return nil, fmt.Errorf("no such host %q", host)
}

type echoServer struct {
	conn *net.UDPConn
	mu   sync.Mutex
	got  [][]byte
}

func newEcho(network string, ip net.IP) (*echoServer, error) {
	conn, err := net.ListenUDP(network, &net.UDPAddr{IP: ip})
	if err != nil {
		return nil, err
	}
	conn.SetReadBuffer(4 << 20)
	e := &echoServer{conn: conn}
	go func() {
		buf := make([]byte, 1<<16)
		for {
			n, from, err := conn.ReadFromUDP(buf)
			if err != nil {
				return
			}
			p := append([]byte(nil), buf[:n]...)
			e.mu.Lock()
			e.got = append(e.got, p)
			e.mu.Unlock()
			conn.WriteToUDP(p, from)
		}
	}()
	return e, nil
}

func propRelay(c RelayCase) (o pbt.Outcome) {
	// destinations: IPv4 literal, a second IPv4 socket, a domain name, IPv6 literal (if available)
	e0, err := newEcho("udp4", net.IPv4(127, 0, 0, 1))
	if err != nil {
		o.Inconclusive = "no loopback UDP: " + err.Error()
		return
	}
	defer e0.conn.Close()
	e1, _ := newEcho("udp4", net.IPv4(127, 0, 0, 1))
	defer e1.conn.Close()
	e2, _ := newEcho("udp4", net.IPv4(127, 0, 0, 1))
	defer e2.conn.Close()
	e3, err6 := newEcho("udp6", net.ParseIP("::1"))
	if err6 == nil {
		defer e3.conn.Close()
	}
	echoes := []*echoServer{e0, e1, e2, e3}
	port := func(e *echoServer) int { return e.conn.LocalAddr().(*net.UDPAddr).Port }
	header := func(dest int) []byte {
		switch dest {
		case 0, 1:
			p := port(echoes[dest])
			return []byte{0, 0, 0, 1, 127, 0, 0, 1, byte(p >> 8), byte(p)}
		case 2, 4:
			// destination 4 is the same name with another port (sink 1)
			name := "echo.test"
			p := port(e2)
			if dest == 4 {
				p = port(e1)
			}
			h := append([]byte{0, 0, 0, 3, byte(len(name))}, name...)
			return append(h, byte(p>>8), byte(p))
		default:
			p := port(e3)
			h := []byte{0, 0, 0, 4}
			h = append(h, net.ParseIP("::1").To16()...)
			return append(h, byte(p>>8), byte(p))
		}
	}
	// the relay: BidiCopyUDP <-> tunnel <-> chunked stream <-> tunnel <-> RunUDPAssociateLoop
	sn := simnet.NewStreamNet(simnet.StreamOpts{ChunksC2S: c.Chunks, ChunksS2C: c.Chunks})
	ln, _ := sn.Listen(context.Background(), "tcp", "10.0.0.1:9")
	defer ln.Close()
	clientStream, err := sn.DialContext(context.Background(), "tcp", "10.0.0.1:9")
	if err != nil {
		o.Failf("harness", "dial: %v", err)
		return
	}
	serverStream, _ := ln.Accept()
	resolver := mapResolver{"echo.test": net.IPv4(127, 0, 0, 1)}
	app, err := net.ListenUDP("udp4", &net.UDPAddr{IP: net.IPv4(127, 0, 0, 1)})
	if err != nil {
		o.Inconclusive = "no loopback UDP"
		return
	}
	app.SetReadBuffer(4 << 20)
	var relayAddr *net.UDPAddr
	var wg sync.WaitGroup
	o.Label("dgram=%v", c.Dgram)
	if c.Dgram {
		srv, err := socks5.New(&socks5.Config{
			Users:            map[string]*pb.User{"loop": {Name: proto.String("loop"), Password: proto.String("x"), AllowLoopbackIP: proto.Bool(true)}},
			HandshakeTimeout: 2 * time.Second, AuthOpts: socks5.Auth{ClientSideAuthentication: true},
			Resolver: resolver, UDPAssociateMode: socks5.UDPAssociateModeDatagram})
		if err != nil {
			o.Failf("harness", "socks5.New: %v", err)
			return
		}
		wg.Add(1)
		go func() {
			defer wg.Done()
			srv.ServeConn(&userConn{Conn: serverStream, user: "loop"})
		}()
		clientStream.Write([]byte{5, 3, 0, 1, 0, 0, 0, 0, 0, 0})
		rep := make([]byte, 10)
		clientStream.SetReadDeadline(time.Now().Add(3 * time.Second))
		if _, err := io.ReadFull(clientStream, rep); err != nil || rep[1] != 0 || rep[3] != 1 {
			app.Close()
			clientStream.Close()
			wg.Wait()
			o.Failf("associate", "UDP ASSOCIATE in datagram mode was not served: reply % x err %v", rep, err)
			return
		}
		clientStream.SetReadDeadline(time.Time{})
		relayAddr = &net.UDPAddr{IP: net.IPv4(127, 0, 0, 1), Port: int(rep[8])<<8 | int(rep[9])}
		defer func() {
			app.Close()
			clientStream.Close()
			done := make(chan struct{})
			go func() { wg.Wait(); close(done) }()
			select {
			case <-done:
			case <-time.After(3 * time.Second):
				serverStream.Close()
				<-done
			}
			serverStream.Close()
		}()
	} else {
		clientUDP, err := net.ListenUDP("udp4", &net.UDPAddr{IP: net.IPv4(127, 0, 0, 1)})
		if err != nil {
			o.Inconclusive = "no loopback UDP"
			return
		}
		clientUDP.SetReadBuffer(4 << 20)
		serverUDP, err := net.ListenUDP("udp", &net.UDPAddr{})
		if err != nil {
			o.Inconclusive = "no UDP socket"
			return
		}
		serverUDP.SetReadBuffer(4 << 20)
		wg.Add(2)
		go func() {
			defer wg.Done()
			socks5.BidiCopyUDP(clientUDP, apicommon.NewPacketOverStreamTunnel(clientStream))
		}()
		go func() {
			defer wg.Done()
			socks5.RunUDPAssociateLoop(serverUDP, apicommon.NewPacketOverStreamTunnel(serverStream), resolver)
		}()
		defer func() {
			// Tear down the way production does: the carrying stream ends first and
			// the relay loops close their UDP sockets themselves. (Closing the UDP
			// socket under RunUDPAssociateLoop first makes its two goroutines store
			// errors of different concrete types into one atomic.Value, which
			// panics; with real proxy connections that order does not occur.)
			app.Close()
			clientStream.Close()
			done := make(chan struct{})
			go func() { wg.Wait(); close(done) }()
			select {
			case <-done:
			case <-time.After(3 * time.Second):
				serverStream.Close()
				clientUDP.Close()
				<-done
			}
			serverStream.Close()
			clientUDP.Close()
			serverUDP.Close()
		}()
		relayAddr = clientUDP.LocalAddr().(*net.UDPAddr)
	}

	type sent struct {
		dest    int
		payload []byte
	}
	var sents []sent
	dests := map[int]bool{}
	var intruder *net.UDPConn
	var intruderPayload []byte
	var early [][]byte
	earlyBuf := make([]byte, 1<<16)
	for i, d := range c.Dgrams {
		dest := d.Dest
		if dest == 3 && err6 != nil {
			dest = 0
		}
		h := header(dest)
		l := d.Len
		if l+len(h) > 65507 {
			l = 65507 - len(h)
		}
		p := payload(Dgram{Len: l, Fill: d.Fill}, c.Salt, i)
		sents = append(sents, sent{dest, p})
		dests[dest] = true
		if _, err := app.WriteToUDP(append(append([]byte(nil), h...), p...), relayAddr); err != nil {
			o.Inconclusive = "send: " + err.Error()
			return
		}
		time.Sleep(300 * time.Microsecond) // keep the kernel queues short
		if c.Intruder == i+1 {
			// wait until the relay has served the application (its address is
			// what the association is tied to), then let the other party try
			app.SetReadDeadline(time.Now().Add(3 * time.Second))
			n, _, err := app.ReadFromUDP(earlyBuf)
			if err != nil {
				o.Inconclusive = "the application's datagram was not answered before the intrusion"
				return
			}
			early = append(early, append([]byte(nil), earlyBuf[:n]...))
			intruder, err = net.ListenUDP("udp4", &net.UDPAddr{IP: net.IPv4(127, 0, 0, 1)})
			if err != nil {
				o.Inconclusive = "no loopback UDP"
				return
			}
			defer intruder.Close()
			intruderPayload = []byte(fmt.Sprintf("datagram of a party that never authenticated %d", c.Salt))
			intruder.WriteToUDP(append(header(0), intruderPayload...), relayAddr)
			time.Sleep(20 * time.Millisecond)
		}
	}
	// collect replies
	replies := append(make([][]byte, 0, len(sents)), early...)
	buf := make([]byte, 1<<16)
	deadline := time.Now().Add(3 * time.Second)
	if intruder != nil {
		deadline = time.Now().Add(200 * time.Millisecond) // mieru ends the association at the intrusion
	}
	for len(replies) < len(sents) {
		app.SetReadDeadline(deadline)
		n, _, err := app.ReadFromUDP(buf)
		if err != nil {
			break
		}
		replies = append(replies, append([]byte(nil), buf[:n]...))
	}
	o.NonTrivial = len(dests) >= 2 || len(c.Chunks) > 0
	if intruder != nil {
		// the association belongs to the application that opened it (and, on a
		// listener with credentials, authenticated): nothing the other party sent
		// may reach a destination, nothing may come back to it
		o.NonTrivial = true
		for di, e := range echoes {
			if e == nil {
				continue
			}
			e.mu.Lock()
			for _, g := range e.got {
				if bytes.Equal(g, intruderPayload) {
					o.Failf("intruder-relayed", "a datagram sent to the association's UDP port by a party that is not the application which opened the association was relayed to destination %d", di)
				}
			}
			e.mu.Unlock()
		}
		intruder.SetReadDeadline(time.Now().Add(300 * time.Millisecond))
		if n, _, err := intruder.ReadFromUDP(buf); err == nil {
			o.Failf("intruder-answered", "the party that is not the application which opened the association received a %d-byte datagram from the relay", n)
		}
		// what happens to the association afterwards (mieru ends it) is not this sub-check's subject
		return
	}
	o.Label("dests=%d", len(dests))
	o.Label("ipv6=%v", err6 == nil)
	// what each destination saw: exactly the payloads addressed to it, in order
	for di, e := range echoes {
		if e == nil {
			continue
		}
		var want [][]byte
		for _, s := range sents {
			if sinkOf(s.dest) == di {
				want = append(want, s.payload)
			}
		}
		e.mu.Lock()
		got := append([][]byte(nil), e.got...)
		e.mu.Unlock()
		if len(got) > len(want) {
			o.Failf("misdelivery", "destination %d received %d datagrams, %d were addressed to it", di, len(got), len(want))
			return
		}
		// got must be a subsequence-prefix match: every received datagram equals the next expected one (OS loss tolerated)
		wi := 0
		for gi, g := range got {
			for wi < len(want) && !bytes.Equal(want[wi], g) {
				wi++
			}
			if wi == len(want) {
				o.Failf("content", "destination %d received a datagram (#%d, %d bytes) that was never addressed to it in that form", di, gi, len(g))
				return
			}
			wi++
		}
		if len(got) < len(want) {
			o.Inconclusive = fmt.Sprintf("destination %d received %d of %d datagrams (lost on the loopback path?)", di, len(got), len(want))
		}
	}
	// replies carry the replying host's address: its literal address, or the
	// name the client used for that host (mieru maps the replying endpoint back
	// to a name the client has used for it in this association)
	namedSink := func(r []byte) (sink int, hdrLen int) {
		if len(r) < 4 {
			return -1, 0
		}
		var p int
		switch r[3] {
		case 1:
			if len(r) < 10 || !bytes.Equal(r[4:8], []byte{127, 0, 0, 1}) {
				return -1, 0
			}
			p, hdrLen = int(r[8])<<8|int(r[9]), 10
		case 4:
			if len(r) < 22 || !bytes.Equal(r[4:20], net.ParseIP("::1").To16()) {
				return -1, 0
			}
			p, hdrLen = int(r[20])<<8|int(r[21]), 22
		case 3:
			if len(r) < 5 || len(r) < 5+int(r[4])+2 || string(r[5:5+int(r[4])]) != "echo.test" {
				return -1, 0
			}
			hdrLen = 5 + int(r[4]) + 2
			p = int(r[hdrLen-2])<<8 | int(r[hdrLen-1])
		default:
			return -1, 0
		}
		for k, e := range echoes {
			if e != nil && port(e) == p {
				if (r[3] == 4) != (k == 3) {
					continue
				}
				return k, hdrLen
			}
		}
		return -1, 0
	}
	used := make([]bool, len(sents))
	for ri, r := range replies {
		sink, hl := namedSink(r)
		matched := false
		if sink >= 0 {
			for si, s := range sents {
				if !used[si] && sinkOf(s.dest) == sink && bytes.Equal(r[hl:], s.payload) {
					used[si], matched = true, true
					break
				}
			}
		}
		if !matched {
			o.Failf("reply", "reply #%d (%d bytes, header % x) does not carry the address (or a name the client used) of the host that echoed its payload", ri, len(r), r[:min(len(r), 24)])
			return
		}
	}
	// an empty datagram is a datagram: it must be relayed in both directions.
	// Missing replies above are tolerated as kernel loss, so this is probed
	// separately with retries: three attempts cannot all be lost on loopback.
	{
		h0 := header(0)
		e0.mu.Lock()
		before := len(e0.got)
		e0.mu.Unlock()
		answered := false
		for attempt := 0; attempt < 3 && !answered; attempt++ {
			if _, err := app.WriteToUDP(append([]byte(nil), h0...), relayAddr); err != nil {
				break
			}
			app.SetReadDeadline(time.Now().Add(700 * time.Millisecond))
			for {
				n, _, err := app.ReadFromUDP(buf)
				if err != nil {
					break
				}
				if sink, hl := namedSink(buf[:n]); sink == 0 && n == hl {
					answered = true
					break
				}
			}
		}
		e0.mu.Lock()
		reached := len(e0.got) - before
		e0.mu.Unlock()
		if !answered && reached >= 3 {
			o.Failf("empty-reply", "three empty datagrams were relayed to destination 0 (it received and echoed %d), none of the empty replies came back through the association", reached)
			return
		}
		if reached == 0 && !answered {
			o.Failf("empty-datagram", "three empty datagrams addressed to destination 0 were sent through the association, none arrived")
			return
		}
	}
	if len(replies) < len(sents) && o.Inconclusive == "" {
		o.Inconclusive = fmt.Sprintf("%d of %d replies arrived", len(replies), len(sents))
	}
	return
}

// sinkOf maps a destination of the table to the echo server behind it.
func sinkOf(dest int) int {
	if dest == 4 {
		return 1
	}
	return dest
}

func min(a, b int) int {
	if a < b {
		return a
	}
	return b
}

// C11 (assoc): the UDP port of an association is the one place where the
// listener takes traffic without a negotiation; it must stay tied to the
// application that opened (and authenticated for) the association.
func genAssoc(t *rapid.T) RelayCase {
	c := genRelay(t)
	c.Dgram = false
	for i := range c.Dgrams {
		if c.Dgrams[i].Len > 1472 {
			c.Dgrams[i].Len = 1472
		}
	}
	c.Intruder = rapid.IntRange(1, len(c.Dgrams)).Draw(t, "intruderAfter")
	return c
}

func TestC11Assoc(t *testing.T) {
	pbt.Run(t, "C11", "assoc", genAssoc, propRelay)
}

func TestC18Relay(t *testing.T) {
	pbt.Run(t, "C18", "relay", genRelay, propRelay)
}
