package c18

import (
	"bytes"
	"context"
	"net"
	"testing"

	apicommon "github.com/enfein/mieru/v3/apis/common"
	"pgregory.net/rapid"

	"verif/harness/pbt"
	"verif/harness/simnet"
)

// (d) the SOCKS5 header layer on top of the tunnel: what an application hands
// to UDPAssociateWrapper.WriteTo with a destination address arrives at the
// other wrapper's ReadFrom as the same datagram with the same address, for
// every reader buffer that is at least as large as the payload (a reader sizes
// its buffer for the payload, not for payload + SOCKS5 header).

type WDgram struct {
	Len   int  `json:"len"`
	Fill  int  `json:"fill"`
	V6    bool `json:"v6,omitempty"`
	Port  int  `json:"port"`
	Slack int  `json:"slack"` // reader buffer = payload length + slack
}

type WrapperCase struct {
	Dgrams []WDgram `json:"dgrams"`
	Chunks []int    `json:"chunks,omitempty"`
	Salt   uint64   `json:"salt"`
}

func genWrapper(t *rapid.T) WrapperCase {
	var c WrapperCase
	n := rapid.IntRange(1, 8).Draw(t, "n")
	for i := 0; i < n; i++ {
		c.Dgrams = append(c.Dgrams, WDgram{
			Len:   rapid.SampledFrom([]int{0, 1, 2, 100, 502, 512, 1024, 1472, 8192, 65000}).Draw(t, "len"),
			Fill:  rapid.SampledFrom([]int{0, 0, 1, 2, 3}).Draw(t, "fill"),
			V6:    rapid.Bool().Draw(t, "v6"),
			Port:  rapid.SampledFrom([]int{1, 53, 443, 255, 256, 65535}).Draw(t, "port"),
			Slack: rapid.SampledFrom([]int{0, 0, 1, 5, 9, 10, 11, 21, 22, 23, 255, 256, 257, 4096}).Draw(t, "slack"),
		})
	}
	for k := rapid.IntRange(0, 3).Draw(t, "nChunks"); k > 0; k-- {
		c.Chunks = append(c.Chunks, rapid.SampledFrom([]int{1, 2, 3, 100, 4096, 0}).Draw(t, "chunk"))
	}
	c.Salt = rapid.Uint64().Draw(t, "salt")
	return c
}

func propWrapper(c WrapperCase) (o pbt.Outcome) {
	sn := simnet.NewStreamNet(simnet.StreamOpts{ChunksC2S: c.Chunks})
	ln, _ := sn.Listen(context.Background(), "tcp", "10.0.0.1:9")
	defer ln.Close()
	wconn, err := sn.DialContext(context.Background(), "tcp", "10.0.0.1:9")
	if err != nil {
		o.Failf("harness", "dial: %v", err)
		return
	}
	rconn, _ := ln.Accept()
	defer rconn.Close()
	defer wconn.Close()
	wr := apicommon.NewUDPAssociateWrapper(apicommon.NewPacketOverStreamTunnel(wconn))
	rd := apicommon.NewUDPAssociateWrapper(apicommon.NewPacketOverStreamTunnel(rconn))
	type sent struct {
		p    []byte
		addr *net.UDPAddr
	}
	var sents []sent
	werr := make(chan error, 1)
	for i, d := range c.Dgrams {
		ip := net.IPv4(198, 51, 100, byte(1+i))
		if d.V6 {
			ip = net.ParseIP("2001:db8::1")
			ip[15] = byte(1 + i)
		}
		sents = append(sents, sent{payload(Dgram{Len: d.Len, Fill: d.Fill}, c.Salt, i), &net.UDPAddr{IP: ip, Port: d.Port}})
	}
	go func() {
		for _, s := range sents {
			if n, err := wr.WriteTo(s.p, s.addr); err != nil || n != len(s.p) {
				werr <- err
				return
			}
		}
		werr <- nil
	}()
	tight := false
	for i, s := range sents {
		slack := c.Dgrams[i].Slack
		hdr := 10
		if c.Dgrams[i].V6 {
			hdr = 22
		}
		if slack < hdr {
			tight = true
		}
		buf := make([]byte, len(s.p)+slack)
		n, addr, err := rd.ReadFrom(buf)
		if err != nil {
			o.Failf("wrapper/error", "datagram %d (%d bytes to %v) read with a buffer of %d bytes (payload + %d): ReadFrom returned %v", i, len(s.p), s.addr, len(buf), slack, err)
			return
		}
		if n != len(s.p) || !bytes.Equal(buf[:n], s.p) {
			o.Failf("wrapper/content", "datagram %d (%d bytes to %v) read with a buffer of %d bytes (payload + %d): got %d bytes, equal=%v", i, len(s.p), s.addr, len(buf), slack, n, n == len(s.p) && bytes.Equal(buf[:n], s.p))
			return
		}
		ua, ok := addr.(*net.UDPAddr)
		if !ok || !ua.IP.Equal(s.addr.IP) || ua.Port != s.addr.Port {
			o.Failf("wrapper/address", "datagram %d was sent to %v and arrived with address %v", i, s.addr, addr)
			return
		}
	}
	if err := <-werr; err != nil {
		o.Failf("wrapper/write", "WriteTo failed: %v", err)
		return
	}
	o.NonTrivial = tight
	o.Label("bufferTighterThanHeader=%v", tight)
	o.Label("chunked=%v", len(c.Chunks) > 0)
	return
}

func TestC18Wrapper(t *testing.T) {
	pbt.Run(t, "C18", "wrapper", genWrapper, propWrapper)
}
