package c18

import (
	"testing"

	"verif/harness/pbt"
)

func FuzzC18Tunnel(f *testing.F) { pbt.Fuzz(f, "C18", "tunnel", genTunnel, propTunnel) }
