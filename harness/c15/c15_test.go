// C15 — close always completes, unblocks everyone, and leaves nothing
// running; deadlines bound every later call. See DESIGN.md section 3.15.
package c15

import (
	"context"
	"fmt"
	"net"
	"runtime"
	"strings"
	"sync"
	"syscall"
	"testing"
	"time"

	"pgregory.net/rapid"

	"verif/harness/e2e"
	"verif/harness/pbt"
	"verif/harness/simnet"
)

const bound = 10 * time.Second // "seconds, not the 60-120 s idle-read timeout"

// ---- shutdown programs ---------------------------------------------------------

type Sess struct {
	Up             []int `json:"up,omitempty"`
	Down           []int `json:"down,omitempty"`
	ClientReadWait bool  `json:"clientReadWait,omitempty"` // a client-side Read is blocked when the action is issued
	ServerReadWait bool  `json:"serverReadWait,omitempty"`
	HalfMessage    int   `json:"halfMessage,omitempty"`  // the client wrote this many bytes that the server application never reads
	NoClientRead   bool  `json:"noClientRead,omitempty"` // the client application never calls Read on this session (it only writes, then closes)
	// Backlog > 0: before the action one end sends that many one-byte writes
	// which the other end never reads (more than a receive queue of 4096
	// segments holds, so the receiving session's input loop waits for space)
	Backlog   int  `json:"backlog,omitempty"`
	BacklogUp bool `json:"backlogUp,omitempty"` // the client is the sender
}

type StopCase struct {
	UDP       bool            `json:"udp,omitempty"`
	NoWait    bool            `json:"noWait,omitempty"`
	RawClient bool            `json:"rawClient,omitempty"` // the client application sits on the session layer (see e2e.Config.RawClient)
	Sessions  []Sess          `json:"sessions"`
	IdleMs    int             `json:"idleMs,omitempty"`  // idle period before the action
	Fault     int             `json:"fault,omitempty"`   // 0 none, 1 TCP reset / UDP black-hole, 2 frozen path (nothing delivered, nothing closed), 3 (UDP) black-hole and, once data is unacknowledged, every send fails (network unreachable)
	Action    int             `json:"action"`            // 0 client closes session 0, 1 server closes session 0, 2 client.Stop, 3 server.Stop, 4 both Stops at once
	Repeat    int             `json:"repeat"`            // how often Close / Stop is repeated (concurrently)
	Pending   bool            `json:"pending,omitempty"` // writers keep writing into the (possibly stalled) path when the action is issued
	Pattern   e2e.PatternSpec `json:"pattern"`
	Salt      uint64          `json:"salt"`
	// AcceptBacklog > 0: the server application stops calling Accept and
	// clients open that many further connections (more than the 64 the mux
	// queues for Accept); BacklogClosed: the clients close them again before
	// the action
	AcceptBacklog int  `json:"acceptBacklog,omitempty"`
	BacklogClosed bool `json:"backlogClosed,omitempty"`
}

func genStop(t *rapid.T) StopCase {
	var c StopCase
	c.UDP = rapid.Bool().Draw(t, "udp")
	c.NoWait = rapid.IntRange(0, 3).Draw(t, "noWait") == 0
	n := rapid.IntRange(1, 3).Draw(t, "nSess")
	if rapid.IntRange(0, 39).Draw(t, "manySessions") == 0 {
		n = 12
	}
	for i := 0; i < n; i++ {
		var s Sess
		for k := rapid.IntRange(0, 2).Draw(t, "nUp"); k > 0; k-- {
			s.Up = append(s.Up, rapid.SampledFrom([]int{1, 100, 1500, 40000}).Draw(t, "up"))
		}
		for k := rapid.IntRange(0, 2).Draw(t, "nDown"); k > 0; k-- {
			s.Down = append(s.Down, rapid.SampledFrom([]int{1, 100, 1500, 40000}).Draw(t, "down"))
		}
		if c.NoWait && len(s.Up) == 0 {
			s.Up = []int{1}
		}
		s.ClientReadWait = rapid.Bool().Draw(t, "clientReadWait")
		s.ServerReadWait = rapid.Bool().Draw(t, "serverReadWait")
		if !s.ServerReadWait {
			s.HalfMessage = rapid.SampledFrom([]int{0, 0, 10, 3000}).Draw(t, "half")
		}
		c.Sessions = append(c.Sessions, s)
	}
	idle := []int{0, 0, 1, 50}
	if pbt.Thorough() {
		idle = []int{0, 1, 50, 2000, 7000}
	}
	c.IdleMs = rapid.SampledFrom(idle).Draw(t, "idle")
	c.Fault = rapid.SampledFrom([]int{0, 0, 0, 1, 2}).Draw(t, "fault")
	if c.UDP && rapid.IntRange(0, 7).Draw(t, "sendErrors") == 0 {
		c.Fault = 3
	}
	c.Action = rapid.IntRange(0, 4).Draw(t, "action")
	c.Repeat = rapid.IntRange(1, 3).Draw(t, "repeat")
	c.Pending = rapid.IntRange(0, 2).Draw(t, "pending") == 0
	c.Pattern = e2e.GenPattern(t, "tp", 1)
	c.Salt = rapid.Uint64().Draw(t, "salt")
	// a receive queue filled to the brim and never drained
	if rapid.IntRange(0, 24).Draw(t, "backlog") == 0 {
		c.UDP = false
		s0 := &c.Sessions[0]
		s0.Backlog = rapid.IntRange(4200, 4800).Draw(t, "backlogWrites")
		s0.BacklogUp = rapid.Bool().Draw(t, "backlogUp")
		s0.ClientReadWait, s0.ServerReadWait = false, false
		c.Fault, c.Pending = 0, false
	}
	// fire-and-forget clients: write, never read, close - while the server
	// application is blocked in Read
	if rapid.IntRange(0, 5).Draw(t, "writeOnly") == 0 {
		// through apis/client the first Write also reads the SOCKS5 response; an
		// application on the session layer really never reads
		c.NoWait, c.RawClient = true, rapid.IntRange(0, 3).Draw(t, "writeOnlyRaw") != 0
		for i := range c.Sessions {
			if i == 0 || rapid.Bool().Draw(t, "writeOnlyToo") {
				c.Sessions[i].NoClientRead, c.Sessions[i].ClientReadWait, c.Sessions[i].ServerReadWait, c.Sessions[i].HalfMessage = true, false, true, 0
				if len(c.Sessions[i].Up) == 0 {
					c.Sessions[i].Up = []int{100}
				}
			}
		}
		if rapid.IntRange(0, 2).Draw(t, "writeOnlyClose") != 0 {
			c.Action = 0
		}
		if rapid.IntRange(0, 2).Draw(t, "writeOnlyNoFault") != 0 {
			c.Fault = 0
		}
	}
	// a server application that stopped accepting while clients keep connecting
	if rapid.IntRange(0, 7).Draw(t, "acceptBacklog") == 0 {
		c.AcceptBacklog = rapid.IntRange(60, 90).Draw(t, "acceptBacklogN")
		c.RawClient, c.NoWait = true, true // a connection is opened by its first Write, no response is awaited
		c.Fault, c.Pending = 0, false
		for i := range c.Sessions {
			c.Sessions[i].Backlog = 0
		}
		// on TCP every session still open at Stop costs the known second of
		// F-C15-6, so there the clients always close the extra ones first
		c.BacklogClosed = !c.UDP || rapid.Bool().Draw(t, "backlogClosed")
	}
	return c
}

// mieruGoroutines counts goroutines with a frame inside mieru.
func mieruGoroutines() (int, string) {
	buf := make([]byte, 1<<22)
	n := runtime.Stack(buf, true)
	count := 0
	var sample string
	for _, g := range strings.Split(string(buf[:n]), "\n\n") {
		if strings.Contains(g, "github.com/enfein/mieru/v3/pkg/") || strings.Contains(g, "github.com/enfein/mieru/v3/apis/") {
			// metrics / log background loops started by package init are not endpoint activity
			if strings.Contains(g, "pkg/metrics.logMetricsLoop") {
				continue
			}
			count++
			if sample == "" {
				sample = g
			}
		}
	}
	return count, sample
}

type waiter struct {
	name     string
	affected func(action int) bool
	done     chan struct{}
	err      error
	at       time.Time
}

func timed(f func()) time.Duration {
	t := time.Now()
	f()
	return time.Since(t)
}

// scaledBound is the 10 s bound stretched by how slow this machine is right
// now: mieru's waits are loops of one-millisecond sleeps and timers, which an
// overloaded machine (load several times the core count) stretches several
// fold. 100 such sleeps take about 0.11 s on an idle machine; the bound grows
// in proportion, up to 45 s - still "seconds, not the 60-120 s idle timeout".
func scaledBound() time.Duration {
	t := time.Now()
	for i := 0; i < 100; i++ {
		time.Sleep(time.Millisecond)
	}
	f := float64(time.Since(t)) / float64(120*time.Millisecond)
	if f < 1 {
		f = 1
	}
	b := time.Duration(float64(10*time.Second) * f)
	if b > 45*time.Second {
		b = 45 * time.Second
	}
	return b
}

func propStop(c StopCase) (o pbt.Outcome) {
	bound := scaledBound()
	before, _ := mieruGoroutines()
	cfg := e2e.Config{UDP: c.UDP, NoWait: c.NoWait, RawClient: c.RawClient, ClientPattern: c.Pattern, ServerPattern: c.Pattern}
	sn := simnet.NewStreamNet(simnet.StreamOpts{})
	pn := simnet.NewPacketNet()
	env, err := e2e.Start(cfg, sn, pn)
	if err != nil {
		o.Failf("start", "start: %v", err)
		return
	}
	stopped := false
	defer func() {
		if !stopped {
			env.StopBounded(bound)
		}
	}()
	var progs []e2e.SessProg
	for _, s := range c.Sessions {
		progs = append(progs, e2e.SessProg{Up: e2e.DirProg{Writes: s.Up}, Down: e2e.DirProg{Writes: s.Down}})
	}
	// open the sessions and run the transfers, keep everything open
	type pair struct{ c, s net.Conn }
	pairs := make([]pair, len(progs))
	var wg sync.WaitGroup
	var openErr error
	var mu sync.Mutex
	for i := range progs {
		wg.Add(1)
		go func(i int) {
			defer wg.Done()
			ctx, cancel := context.WithTimeout(context.Background(), 30*time.Second)
			defer cancel()
			cc, err := env.Dial(ctx, i)
			if err != nil {
				mu.Lock()
				openErr = err
				mu.Unlock()
				return
			}
			key := e2e.StreamKey(c.Salt, i, 0)
			var off int64
			ups := progs[i].Up.Writes
			if c.NoWait && len(ups) == 0 {
				ups = []int{1}
			}
			for _, w := range ups {
				p := make([]byte, w)
				e2e.PRFFill(key, off, p)
				if _, err := cc.Write(p); err != nil {
					mu.Lock()
					openErr = err
					mu.Unlock()
					return
				}
				off += int64(w)
			}
			sc, err := env.ServerSide(i, 20*time.Second)
			if err != nil {
				mu.Lock()
				openErr = err
				mu.Unlock()
				return
			}
			// server reads what the client wrote, then writes Down; client reads it
			buf := make([]byte, 65536)
			for got := int64(0); got < off; {
				sc.Conn.SetReadDeadline(time.Now().Add(20 * time.Second))
				n, err := sc.Conn.Read(buf)
				got += int64(n)
				if err != nil {
					mu.Lock()
					openErr = fmt.Errorf("server read: %w", err)
					mu.Unlock()
					return
				}
			}
			sc.Conn.SetReadDeadline(time.Time{})
			var down int64
			for _, w := range progs[i].Down.Writes {
				p := make([]byte, w)
				if _, err := sc.Conn.Write(p); err != nil {
					mu.Lock()
					openErr = fmt.Errorf("server write: %w", err)
					mu.Unlock()
					return
				}
				down += int64(w)
			}
			for got := int64(0); got < down && !c.Sessions[i].NoClientRead; {
				n, err := cc.Read(buf)
				got += int64(n)
				if err != nil && !e2e.IsTimeout(err) {
					mu.Lock()
					openErr = fmt.Errorf("client read: %w", err)
					mu.Unlock()
					return
				}
			}
			if h := c.Sessions[i].HalfMessage; h > 0 {
				cc.Write(make([]byte, h)) // the server application never reads this
			}
			mu.Lock()
			pairs[i] = pair{cc, sc.Conn}
			mu.Unlock()
		}(i)
	}
	wg.Wait()
	if openErr != nil {
		o.Inconclusive = "setup transfer failed: " + openErr.Error()
		return
	}
	// blocked readers
	var waiters []*waiter
	startWaiter := func(name string, conn net.Conn, affected func(int) bool) {
		w := &waiter{name: name, affected: affected, done: make(chan struct{})}
		waiters = append(waiters, w)
		go func() {
			buf := make([]byte, 16)
			for {
				n, err := conn.Read(buf)
				if err != nil && e2e.IsTimeout(err) {
					continue // an application retries a deadline error
				}
				if n > 0 && err == nil {
					continue
				}
				w.err, w.at = err, time.Now()
				close(w.done)
				return
			}
		}()
	}
	intact := c.Fault == 0
	for i, s := range c.Sessions {
		i := i
		if s.ClientReadWait {
			startWaiter(fmt.Sprintf("client-side Read on session %d", i), pairs[i].c, func(a int) bool {
				switch a {
				case 0:
					return i == 0
				case 1:
					return i == 0 && intact
				case 2, 4:
					return true
				default:
					return intact
				}
			})
		}
		if s.ServerReadWait {
			startWaiter(fmt.Sprintf("server-side Read on session %d", i), pairs[i].s, func(a int) bool {
				switch a {
				case 1:
					return i == 0
				case 0:
					return i == 0 && intact
				case 3, 4:
					return true
				default:
					return intact
				}
			})
		}
	}
	for i, s := range c.Sessions {
		if s.Backlog == 0 {
			continue
		}
		from := pairs[i].s
		if s.BacklogUp {
			from = pairs[i].c
		}
		wrote := make(chan struct{})
		go func(n int) {
			defer close(wrote)
			one := []byte{7}
			for k := 0; k < n; k++ {
				if _, err := from.Write(one); err != nil {
					return
				}
			}
		}(s.Backlog)
		select {
		case <-wrote:
		case <-time.After(8 * time.Second):
		}
		time.Sleep(100 * time.Millisecond)
		o.Label("receiveQueueBacklog")
	}
	if c.AcceptBacklog > 0 {
		env.PauseAccept(true)
		var extra []net.Conn
		for k := 0; k < c.AcceptBacklog; k++ {
			ctx, cancel := context.WithTimeout(context.Background(), 20*time.Second)
			cc, err := env.Dial(ctx, 1000+k)
			cancel()
			if err != nil {
				o.Inconclusive = "dialling a further connection failed: " + err.Error()
				return
			}
			if _, err := cc.Write([]byte{1}); err != nil {
				o.Inconclusive = "first write on a further connection failed: " + err.Error()
				return
			}
			extra = append(extra, cc)
		}
		time.Sleep(300 * time.Millisecond)
		if c.BacklogClosed {
			for _, cc := range extra {
				cc.Close()
			}
			time.Sleep(100 * time.Millisecond)
		}
		o.Label("acceptBacklog>64=%v", c.AcceptBacklog > 64)
	}
	time.Sleep(2 * time.Millisecond)
	if c.IdleMs > 0 {
		time.Sleep(time.Duration(c.IdleMs) * time.Millisecond)
	}
	switch c.Fault {
	case 1:
		if c.UDP {
			pn.SetBlackhole(true)
		} else {
			for _, l := range sn.Links() {
				l.Reset()
			}
		}
	case 2:
		if c.UDP {
			pn.SetBlackhole(true)
		} else {
			for _, l := range sn.Links() {
				l.Freeze(true)
			}
		}
	case 3:
		pn.SetBlackhole(true)
		defer pn.SetSendError(nil)
	}
	if c.Pending {
		// writers at both ends push data until they block (stalled path) or for 150 ms
		for i := range pairs {
			for _, conn := range []net.Conn{pairs[i].c, pairs[i].s} {
				conn := conn
				go func() {
					p := make([]byte, 32768)
					end := time.Now().Add(150 * time.Millisecond)
					for time.Now().Before(end) {
						if _, err := conn.Write(p); err != nil {
							return
						}
					}
				}()
			}
		}
		time.Sleep(60 * time.Millisecond)
	}
	if c.Fault == 3 {
		// data is in flight and unacknowledged by now: from here on the host
		// cannot send at all, so the next retransmission attempt fails
		if !c.Pending {
			for i := range pairs {
				pairs[i].c.Write(make([]byte, 1000))
				pairs[i].s.Write(make([]byte, 1000))
			}
			time.Sleep(20 * time.Millisecond)
		}
		pn.SetSendError(syscall.ENETUNREACH)
		time.Sleep(300 * time.Millisecond)
	}
	// the action, possibly repeated concurrently
	graceCh := make(chan time.Duration, 1)
	go func() {
		t := time.Now()
		for i := 0; i < 1000; i++ {
			time.Sleep(time.Millisecond)
		}
		graceCh <- time.Since(t)
	}()
	issued := time.Now()
	var durations []time.Duration
	var dmu sync.Mutex
	var awg sync.WaitGroup
	run := func(name string, f func()) {
		for r := 0; r < c.Repeat; r++ {
			awg.Add(1)
			go func() {
				defer awg.Done()
				d := timed(f)
				dmu.Lock()
				durations = append(durations, d)
				dmu.Unlock()
			}()
		}
	}
	actionName := []string{"client-side Close of session 0", "server-side Close of session 0", "client.Stop", "server.Stop", "client.Stop and server.Stop"}[c.Action]
	switch c.Action {
	case 0:
		run(actionName, func() { pairs[0].c.Close() })
	case 1:
		run(actionName, func() { pairs[0].s.Close() })
	case 2:
		run(actionName, func() { env.StopClient() })
	case 3:
		run(actionName, func() { env.Server.Stop() })
	case 4:
		run(actionName, func() { env.StopClient() })
		run(actionName, func() { env.Server.Stop() })
	}
	actionDone := make(chan struct{})
	go func() { awg.Wait(); close(actionDone) }()
	faultName := []string{"network intact", "TCP reset / UDP black-hole", "frozen path", "UDP black-hole, then every send fails"}[c.Fault]
	o.Label("udp=%v", c.UDP)
	o.Label("action=%d", c.Action)
	o.Label("fault=%d", c.Fault)
	o.Label("waiters=%d", len(waiters))
	o.Label("pending=%v", c.Pending)
	o.Label("writeOnlyClient=%v", c.Sessions[0].NoClientRead)
	o.NonTrivial = len(waiters) > 0 || c.Pending
	// Known open finding F-C15-6: Stop closes the sessions one after the other
	// and each waits its full one-second grace whenever its close request
	// cannot be sent at once - always on TCP (the underlay expires the
	// connection's deadline first), and on UDP when the send window is closed
	// (stalled path with data pending). Any "too slow"/"still blocked" verdict
	// of a Stop under these conditions is attributed to it.
	graceApplies := !c.UDP || (c.Fault != 0 && c.Pending) // sessions cannot send their close request at once
	stalledTCP := false // a TCP underlay whose write is stalled: writers pushing into a peer that does not read
	hasBacklog := false
	if !c.UDP {
		stalledTCP = c.Pending
		for _, ss := range c.Sessions {
			if ss.Backlog > 0 {
				stalledTCP, hasBacklog = true, true
			}
		}
	}
	// The finding explains about one second per session, not more: with n
	// sessions a Stop may then need n seconds (plus slack), so it accounts for
	// a verdict at the 10 s bound only when there are enough sessions, and
	// only if everything is over within n*2 s + 5 s.
	// "One second" is a loop of 1000 one-millisecond sleeps in mieru, which
	// stretches on a loaded machine; the same loop, started together with the
	// action (graceCh), measures what it costs here and now.
	var perSession time.Duration
	explain := func() (explainable bool, budget time.Duration) {
		if perSession == 0 {
			// measured on this host: a Stop costs about 1.25 grace loops per
			// session; 1.5 loops + 0.5 s leaves room for what else stretches
			perSession = (<-graceCh)*3/2 + 500*time.Millisecond
		}
		n := time.Duration(len(c.Sessions))
		return graceApplies && n*perSession+2*time.Second >= bound, n*2*perSession + 5*time.Second
	}
	tcpStop := func(sig string) string {
		if explainable, _ := explain(); explainable && c.Action >= 2 {
			return "stop-one-second-per-session"
		}
		return sig
	}
	// a timing verdict is only issued if the machine is not slower now than
	// when the bound was taken: the probe is repeated and the event awaited for
	// the difference
	extra := func(ch <-chan struct{}) bool {
		b2 := scaledBound()
		if b2 <= bound {
			return false
		}
		select {
		case <-ch:
			bound = b2 // the stretched bound holds for what follows
			return true
		case <-time.After(b2 - bound):
			return false
		}
	}
	select {
	case <-actionDone:
	case <-time.After(bound):
		if extra(actionDone) {
			break
		}
		sig := fmt.Sprintf("slow/%s", []string{"session-close", "session-close", "client-stop", "server-stop", "both-stop"}[c.Action])
		if c.Pending && c.Fault == 2 && !c.UDP {
			sig += "/tcp-write-stalled"
		}
		if tcpStop(sig) != sig {
			// explained by the known finding only if it ends within the budget
			select {
			case <-actionDone:
				sig = tcpStop(sig)
			case <-time.After(time.Until(issued.Add(func() time.Duration { _, b := explain(); return b }()))):
				sig += "/beyond-one-second-per-session"
			}
		}
		o.Failf(sig, "%s (%s, udp=%v, %d open sessions) did not return within %v", actionName, faultName, c.UDP, len(c.Sessions), bound)
		// let the action finish so that the process stays clean
		pn.SetBlackhole(false)
		for _, l := range sn.Links() {
			l.Freeze(false)
		}
		select {
		case <-actionDone:
		case <-time.After(130 * time.Second):
		}
		return
	}
	var maxAction time.Duration
	for _, d := range durations {
		if d > maxAction {
			maxAction = d
		}
	}
	o.Obs = map[string]any{"actionMs": maxAction.Milliseconds()}
	for _, d := range durations {
		if d > bound {
			o.Failf(tcpStop("slow"), "%s took %v", actionName, d)
			return
		}
	}
	// blocked calls on affected connections return
	for _, w := range waiters {
		if !w.affected(c.Action) {
			continue
		}
		select {
		case <-w.done:
		case <-time.After(time.Until(issued.Add(bound))):
			if extra(w.done) {
				continue
			}
			sig := "blocked/" + strings.Fields(w.name)[0]
			if stalledTCP {
				// open finding F-C15-8 (same root cause): with the underlay's write
				// stalled (peer not reading, full buffers) every per-session Close
				// inside Stop blocks on the output lock, and a Read blocked at the
				// peer is only released when the connection finally goes away. It
				// accounts for a late return, not for one that never comes.
				select {
				case <-w.done:
					sig = "blocked/tcp-write-stalled"
				case <-time.After(time.Until(issued.Add(3 * bound))):
					sig += "/beyond-tcp-write-stalled"
					if hasBacklog {
						// open finding F-C15-10: with a session's receive queue full
						// (its application not reading) a Stop of that endpoint does
						// not release a Read blocked at the peer at all within three
						// times the bound
						sig = "blocked/tcp-receive-queue-full/not-released-by-stop"
					}
				}
			}
			if tcpStop(sig) != sig {
				select {
				case <-w.done:
					sig = tcpStop(sig)
				case <-time.After(time.Until(issued.Add(func() time.Duration { _, b := explain(); return b }()))):
					sig += "/beyond-one-second-per-session"
				}
			}
			o.Failf(sig, "%s was blocked when %s was issued (%s) and has not returned %v later", w.name, actionName, faultName, bound)
			return
		}
	}
	// full shutdown, then nothing of the two endpoints may keep running
	t0 := time.Now()
	stopDone := make(chan struct{})
	go func() { env.Stop(); close(stopDone) }()
	stopped = true
	select {
	case <-stopDone:
	case <-time.After(bound):
		if extra(stopDone) {
			break
		}
		sigFinal := "slow/final-stop"
		if explainable, budget := explain(); explainable {
			select {
			case <-stopDone:
				sigFinal = "stop-one-second-per-session"
			case <-time.After(budget - bound):
				sigFinal += "/beyond-one-second-per-session"
			}
		}
		o.Failf(sigFinal, "stopping client and server after %s (%s, %d sessions) did not complete within %v", actionName, faultName, len(c.Sessions), bound)
		return
	}
	_ = t0
	for _, w := range waiters {
		select {
		case <-w.done:
		case <-time.After(bound):
			o.Failf("blocked/after-stop", "%s is still blocked %v after both endpoints were stopped", w.name, bound)
			return
		}
	}
	deadline := time.Now().Add(5 * time.Second)
	for {
		after, sample := mieruGoroutines()
		if after <= before {
			break
		}
		if time.Now().After(deadline) {
			sig := "leak"
			if c.UDP && c.AcceptBacklog > 0 && (strings.Contains(sample, "(*Session).runInputLoop") || strings.Contains(sample, "(*Session).runOutputLoop")) {
				// open finding F-C15-9: session loops on a UDP endpoint whose
				// application had stopped accepting survive the shutdown
				sig = "leak/udp-accept-backlog/session-loops"
			}
			o.Failf(sig, "%d goroutine(s) of the stopped endpoints are still running 5 s after Stop, e.g.:\n%s", after-before, sample)
			return
		}
		time.Sleep(20 * time.Millisecond)
	}
	return
}

func TestC15Stop(t *testing.T) {
	pbt.Run(t, "C15", "stop", genStop, propStop)
}

// ---- deadlines --------------------------------------------------------------------

type DeadlineCase struct {
	UDP        bool   `json:"udp,omitempty"`
	ServerSide bool   `json:"serverSide,omitempty"` // the deadline is set on the server-side connection
	Write      bool   `json:"write,omitempty"`      // write deadline (against a frozen path) instead of read deadline
	UseBoth    bool   `json:"useBoth,omitempty"`    // SetDeadline instead of SetRead/WriteDeadline
	DeadlineMs int    `json:"deadlineMs"`
	Calls      int    `json:"calls"`                // number of consecutive calls after one SetDeadline
	WriteFirst bool   `json:"writeFirst,omitempty"` // a Write happens between SetReadDeadline and the Read
	Salt       uint64 `json:"salt"`
}

func genDeadline(t *rapid.T) DeadlineCase {
	return DeadlineCase{
		UDP:        rapid.Bool().Draw(t, "udp"),
		ServerSide: rapid.Bool().Draw(t, "serverSide"),
		Write:      rapid.IntRange(0, 2).Draw(t, "write") == 0,
		UseBoth:    rapid.Bool().Draw(t, "useBoth"),
		DeadlineMs: rapid.SampledFrom([]int{-50, 0, 1, 30, 200, 600}).Draw(t, "deadline"),
		Calls:      rapid.IntRange(1, 3).Draw(t, "calls"),
		WriteFirst: rapid.IntRange(0, 2).Draw(t, "writeFirst") == 0,
		Salt:       rapid.Uint64().Draw(t, "salt"),
	}
}

func propDeadline(c DeadlineCase) (o pbt.Outcome) {
	cfg := e2e.Config{UDP: c.UDP}
	sn := simnet.NewStreamNet(simnet.StreamOpts{BufC2S: 2000, BufS2C: 2000})
	pn := simnet.NewPacketNet()
	env, err := e2e.Start(cfg, sn, pn)
	if err != nil {
		o.Failf("start", "start: %v", err)
		return
	}
	defer env.StopBounded(bound)
	ctx, cancel := context.WithTimeout(context.Background(), 30*time.Second)
	defer cancel()
	cc, err := env.Dial(ctx, 0)
	if err != nil {
		o.Inconclusive = "dial: " + err.Error()
		return
	}
	defer cc.Close()
	sc, err := env.ServerSide(0, 20*time.Second)
	if err != nil {
		o.Inconclusive = "server side: " + err.Error()
		return
	}
	defer sc.Conn.Close()
	conn := cc
	if c.ServerSide {
		conn = sc.Conn
	}
	side := map[bool]string{false: "client", true: "server"}[c.ServerSide]
	o.Label("udp=%v", c.UDP)
	o.Label("side=%s", side)
	o.Label("write=%v", c.Write)
	o.Label("calls=%d", c.Calls)
	o.NonTrivial = c.Calls >= 2 || c.Write || c.WriteFirst
	slack := 2 * time.Second
	d := time.Duration(c.DeadlineMs) * time.Millisecond
	if c.DeadlineMs == 0 {
		d = time.Microsecond
	}
	if c.Write {
		// stall the path so that writes eventually block
		if c.UDP {
			pn.SetBlackhole(true)
		} else {
			for _, l := range sn.Links() {
				l.Freeze(true)
			}
		}
		// restore the path before the deferred Close calls run: closing a
		// session whose underlay write is stalled is a scenario of the stop
		// sub-check, not of this one
		defer func() {
			pn.SetBlackhole(false)
			for _, l := range sn.Links() {
				l.Freeze(false)
			}
		}()
	}
	deadline := time.Now().Add(d)
	switch {
	case c.UseBoth:
		conn.SetDeadline(deadline)
	case c.Write:
		conn.SetWriteDeadline(deadline)
	default:
		conn.SetReadDeadline(deadline)
	}
	if !c.Write && c.WriteFirst {
		conn.Write([]byte("x"))
	}
	payload := make([]byte, 32768)
	for call := 1; call <= c.Calls; call++ {
		type res struct {
			n   int
			err error
		}
		ch := make(chan res, 1)
		go func() {
			var r res
			if c.Write {
				// keep writing until something blocks or fails (a stalled path
				// accepts only what the windows and buffers hold)
				for i := 0; i < 400; i++ {
					r.n, r.err = conn.Write(payload)
					if r.err != nil {
						break
					}
				}
				if r.err == nil {
					r.err = fmt.Errorf("harness: 400 writes of 32 KiB succeeded on a stalled path")
				}
			} else {
				buf := make([]byte, 16)
				r.n, r.err = conn.Read(buf)
			}
			ch <- r
		}()
		limit := time.Until(deadline) + slack
		if limit < slack {
			limit = slack
		}
		op := map[bool]string{false: "Read", true: "Write"}[c.Write]
		select {
		case r := <-ch:
			if r.err == nil {
				o.Failf("deadline/no-error", "%s side %s #%d after the deadline returned n=%d without an error although nothing could be transferred", side, op, call, r.n)
				return
			}
			if strings.HasPrefix(r.err.Error(), "harness:") {
				o.Inconclusive = r.err.Error()
				return
			}
			if !e2e.IsTimeout(r.err) {
				o.Failf("deadline/wrong-error", "%s side %s #%d returned %v, want a timeout error", side, op, call, r.err)
				return
			}
		case <-time.After(limit):
			sig := fmt.Sprintf("deadline/%s/call-%d", strings.ToLower(op), min(call, 2))
			if !c.Write && c.WriteFirst && call == 1 {
				sig = "deadline/read/after-write"
			}
			if c.Write && !c.UDP {
				// TCP: the output loop sits in the stalled conn.Write holding the
				// lock that Write needs (root cause shared with F-C15-8)
				sig = "deadline/write/tcp-underlay-write-stalled"
			}
			o.Failf(sig, "%s side: %s #%d after Set%sDeadline(now%+dms) is still blocked %v after the deadline (udp=%v writeFirst=%v)", side, op, call, map[bool]string{true: "", false: op}[c.UseBoth], c.DeadlineMs, slack, c.UDP, c.WriteFirst)
			pn.SetBlackhole(false)
			for _, l := range sn.Links() {
				l.Freeze(false)
			}
			conn.Close()
			select {
			case <-ch:
			case <-time.After(bound):
			}
			return
		}
	}
	return
}

func min(a, b int) int {
	if a < b {
		return a
	}
	return b
}

func TestC15Deadline(t *testing.T) {
	pbt.Run(t, "C15", "deadline", genDeadline, propDeadline)
}
