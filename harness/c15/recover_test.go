// C02 (deadline-recover): a Write that gives up at its write deadline must not
// damage the stream. On a black-holed UDP path a writer with a write deadline
// writes until Write times out (once or twice), then the path comes back, the
// deadline is lifted and a distinct tail is written. The peer must read the
// bytes Write reported as written, in order, and then the tail. (C15 decides
// that the deadline bounds the call; this sub-check decides what the stream
// looks like afterwards - the oracle is C02's byte-stream model.)
package c15

import (
	"bytes"
	"context"
	"sync"
	"testing"
	"time"

	"pgregory.net/rapid"

	"verif/harness/e2e"
	"verif/harness/pbt"
	"verif/harness/simnet"
)

type RecoverCase struct {
	ServerSide bool   `json:"serverSide,omitempty"` // the server-side application is the writer
	DeadlineMs []int  `json:"deadlineMs"`           // one entry per round of "write until the deadline hits"
	Chunk      int    `json:"chunk"`                // size of each Write call
	Before     int    `json:"before"`               // bytes transferred normally before the path fails
	Salt       uint64 `json:"salt"`
}

func genRecover(t *rapid.T) RecoverCase {
	c := RecoverCase{
		ServerSide: rapid.Bool().Draw(t, "serverSide"),
		Chunk:      rapid.SampledFrom([]int{1000, 1400, 5000, 32768, 32769, 100000}).Draw(t, "chunk"),
		Before:     rapid.SampledFrom([]int{0, 1, 3000, 40000}).Draw(t, "before"),
		Salt:       rapid.Uint64().Draw(t, "salt"),
	}
	for i := rapid.IntRange(1, 2).Draw(t, "rounds"); i > 0; i-- {
		c.DeadlineMs = append(c.DeadlineMs, rapid.SampledFrom([]int{1, 20, 100, 400}).Draw(t, "deadline"))
	}
	return c
}

func propRecover(c RecoverCase) (o pbt.Outcome) {
	pn := simnet.NewPacketNet()
	env, err := e2e.Start(e2e.Config{UDP: true}, simnet.NewStreamNet(simnet.StreamOpts{}), pn)
	if err != nil {
		o.Failf("start", "start: %v", err)
		return
	}
	defer env.StopBounded(bound)
	ctx, cancel := context.WithTimeout(context.Background(), 30*time.Second)
	defer cancel()
	cc, err := env.Dial(ctx, 0)
	if err != nil {
		o.Inconclusive = "dial: " + err.Error()
		return
	}
	defer cc.Close()
	sc, err := env.ServerSide(0, 20*time.Second)
	if err != nil {
		o.Inconclusive = "server side: " + err.Error()
		return
	}
	defer sc.Conn.Close()
	w, r := cc, sc.Conn
	if c.ServerSide {
		w, r = sc.Conn, cc
	}
	// the peer reads whatever arrives
	var mu sync.Mutex
	var got []byte
	stop := make(chan struct{})
	rdone := make(chan struct{})
	go func() {
		defer close(rdone)
		buf := make([]byte, 65536)
		for {
			select {
			case <-stop:
				return
			default:
			}
			r.SetReadDeadline(time.Now().Add(200 * time.Millisecond))
			n, err := r.Read(buf)
			mu.Lock()
			got = append(got, buf[:n]...)
			mu.Unlock()
			if err != nil && !e2e.IsTimeout(err) {
				return
			}
		}
	}()
	defer func() { close(stop); <-rdone }()
	key := e2e.StreamKey(c.Salt, 0, 0)
	var acc int64
	write := func(n int) (int, error) {
		p := make([]byte, n)
		e2e.PRFFill(key, acc, p)
		k, err := w.Write(p)
		acc += int64(k)
		return k, err
	}
	if c.Before > 0 {
		if _, err := write(c.Before); err != nil {
			o.Inconclusive = "write before the fault: " + err.Error()
			return
		}
	}
	pn.SetBlackhole(true)
	timeouts := 0
	for _, d := range c.DeadlineMs {
		w.SetWriteDeadline(time.Now().Add(time.Duration(d) * time.Millisecond))
		var werr error
		for i := 0; i < 3000 && werr == nil; i++ {
			_, werr = write(c.Chunk)
		}
		if werr == nil {
			o.Inconclusive = "3000 writes succeeded on a black-holed path"
			pn.SetBlackhole(false)
			return
		}
		if !e2e.IsTimeout(werr) {
			pn.SetBlackhole(false)
			o.Inconclusive = "write on the black-holed path failed with " + werr.Error()
			return
		}
		timeouts++
	}
	pn.SetBlackhole(false)
	w.SetWriteDeadline(time.Time{})
	tail := make([]byte, 1000)
	e2e.PRFFill(e2e.StreamKey(c.Salt, 7, 7), 0, tail)
	if _, err := w.Write(tail); err != nil {
		o.Failf("recover/tail-write", "after %d timed-out Write(s) the deadline was lifted and the path restored; the next Write failed: %v", timeouts, err)
		return
	}
	o.NonTrivial = true
	o.Label("serverSide=%v", c.ServerSide)
	o.Label("rounds=%d", len(c.DeadlineMs))
	o.Label("chunk>1pdu=%v", c.Chunk > 32768)
	// the stream the peer must see: exactly S[0:acc], then the tail
	want := make([]byte, acc+32768)
	e2e.PRFFill(key, 0, want)
	deadline := time.Now().Add(45 * time.Second)
	for {
		mu.Lock()
		g := append([]byte(nil), got...)
		mu.Unlock()
		body := g
		if len(body) > len(want) {
			body = body[:len(want)]
		}
		// everything before a possible tail must be the written stream
		k := len(g) - len(tail)
		if k >= 0 && bytes.Equal(g[k:], tail) {
			if int64(k) != acc || !bytes.Equal(g[:k], want[:k]) {
				o.Failf("recover/data", "Write reported %d bytes written (with %d timeouts in between); the peer read %d bytes before the tail, and they are not the first %d bytes of what was written", acc, timeouts, k, k)
			}
			return
		}
		// no tail yet: what is there must be a prefix of stream(+tail)
		lim := len(g)
		if int64(lim) > acc {
			lim = int(acc)
		}
		if !bytes.Equal(g[:lim], want[:lim]) {
			o.Failf("recover/data", "the peer read bytes that differ from what was written (within the first %d of %d reported written)", lim, acc)
			return
		}
		if time.Now().After(deadline) {
			o.Failf("recover/stall", "Write reported %d bytes written, timed out %d time(s) on a black-holed path, then the path was restored, the deadline lifted and a 1000-byte tail written successfully; 45 s later the peer has read %d bytes and no tail", acc, timeouts, len(g))
			return
		}
		time.Sleep(20 * time.Millisecond)
	}
}

func TestC02DeadlineRecover(t *testing.T) {
	pbt.Run(t, "C02", "deadline-recover", genRecover, propRecover)
}
